----------------------------- MODULE CliBinding -----------------------------
(* G07 (DESIGN.md section 7) - the command-line layer: toasty/cli.py, entrypoint(args).           *)
(*                                                                                               *)
(* The CLI is a BINDING: (subcommand, option assignment)  |->  the effective library call(s).     *)
(* An invocation is a subcommand `sub` and a finite function `asg` from option names to the       *)
(* abstract value of the token given on the command line (an option that is not in DOMAIN asg     *)
(* was omitted).  Eff(sub, asg, proc) is the transcription of argparse + <sub>_impl(settings):    *)
(* how the invocation ends (status, exit code), which library entry points are called and the     *)
(* value EVERY parameter of each call receives - those the CLI passes and those it leaves to the  *)
(* library's own default (the harness binds the recorded arguments to the callee's signature and  *)
(* applies its defaults, so a keyword the callee does not know, swallowed by a **kwargs, shows as *)
(* a parameter that did not receive the option's value).                                          *)
(*                                                                                               *)
(* The CONTRACT a user relies on is the declaration table D(sub): for every option its kind,      *)
(* the value argparse substitutes when it is omitted, the library parameter it must reach         *)
(* (`dest`), and the library's own default for that parameter (`lib`).  The theorems below say    *)
(* that the transcription keeps the contract over the whole (subcommand x option subset x value)  *)
(* space; the as-built exceptions are NAMED (DefaultDeviations, Suppressed, NeededOptionStops) and *)
(* the unconditional "ideal" statements are kept as negative controls that TLC refutes.           *)
(*                                                                                               *)
(* `proc` is what survives in the Python process between two invocations of entrypoint(): the     *)
(* class attributes ImageLoader / CollectionLoader instances fall back to, PIL's                  *)
(* MAX_IMAGE_PIXELS, par_util.SHOW_INFORMATIONAL_MESSAGES.  HistSpec runs histories of            *)
(* invocations in one process; NoCarryOver / ProcStable say that no invocation influences a       *)
(* later one.  Leaky = TRUE is the negative control (create_from_args storing the crop on the     *)
(* class): TLC refutes NoCarryOver with a two-invocation history.                                 *)
(*                                                                                               *)
(* Values are tagged records with pairwise different field names (TLC cannot compare a string     *)
(* with an integer; records with different field names compare unequal without an error).         *)
EXTENDS Integers, Sequences, FiniteSets, TLC

CONSTANTS Level,       \* 0, 1, 2: size of the value sets (0: one accepted value per option and one refused value per conversion)
          ForeignUpTo, \* an undeclared option is tried on every assignment of at most this many declared non-positional options
          Leaky,       \* BOOLEAN: negative control for the history theorems
          MaxInv,      \* HistSpec: invocations per process
          Invs         \* HistSpec: the sequence of invocations [sub, asg] a history draws from

\* (formal parameters are called cmd / opts / ps, never sub / asg / proc: a parameter that shares its name with a variable
\*  keeps TLC from evaluating the constant tables once)
\* ------------------------------------------------------------------ tagged values
I(n) == [int |-> n]
S(s) == [str |-> s]
B(b) == [bool |-> b]
None == [none |-> TRUE]
Dec(n, d) == [dec |-> <<n, d>>]          \* the float n / d (lowest terms, d > 0)
L(seq) == [list |-> seq]
Path(p) == [path |-> p]                   \* a named input file of the harness (FileInfo)
Dir(p) == [dir |-> p]                     \* a named directory of the harness
Fn(f) == [fn |-> f]                       \* a library function passed as an argument
Enum(e) == [enum |-> e]
Obj(c) == [obj |-> c]                     \* the object made by the call named c of the same invocation
Ref(r) == [ref |-> r]                     \* a property of the loaded image (image.width, image.height, image.default_format)
Wcs(p) == [wcs |-> p]                     \* the WCS solution stored in file p
Bad == [bad |-> TRUE]
Req == [req |-> TRUE]                     \* "the library parameter is required: there is no library default"
\* abstract command-line tokens that are not one of the above
Flag == [flag |-> TRUE]                   \* a store_true option that is present
Junk(s) == [junk |-> s]                   \* a token that is neither a number nor a member of any choice list
Ints(seq) == [ints |-> seq]               \* "1,2,3,4"
Keys(seq) == [keys |-> seq]               \* "A,B"
Is(v, tag) == tag \in DOMAIN v

\* ------------------------------------------------------------------ the harness's input files
FileInfo(p) ==
    CASE p = "sky.png"   -> [fmt |-> "png",  w |-> 60, h |-> 40, avm |-> "none",  wcs |-> FALSE]
      [] p = "avm.png"   -> [fmt |-> "png",  w |-> 60, h |-> 40, avm |-> "full",  wcs |-> FALSE]   \* AVM with spatial tags for 60 x 40, Title "From AVM"
      [] p = "title.png" -> [fmt |-> "png",  w |-> 60, h |-> 40, avm |-> "title", wcs |-> FALSE]   \* AVM without spatial tags
      [] p = "map.fits"  -> [fmt |-> "fits", w |-> 48, h |-> 32, avm |-> "none",  wcs |-> TRUE]    \* float32 image with a TAN WCS
      [] p = "wcs.fits"  -> [fmt |-> "fits", w |-> 60, h |-> 40, avm |-> "none",  wcs |-> TRUE]
      [] OTHER           -> [fmt |-> "other", w |-> 0, h |-> 0, avm |-> "none",  wcs |-> FALSE]
AvmTitle == S("From AVM")

\* ------------------------------------------------------------------ option kinds: what argparse accepts, what it stores
Choices(k) ==
    CASE k = "choice:format" -> {"png", "jpg", "npy", "fits"}
      [] k = "choice:cs"     -> {"srgb", "none"}
      [] k = "choice:proj"   -> {"plate-carree", "plate-carree-galactic", "plate-carree-ecliptic", "plate-carree-planet",
                                 "plate-carree-planet-zeroleft", "plate-carree-planet-zeroright", "plate-carree-panorama"}
      [] k = "choice:tiling" -> {"auto", "tan", "toast", "hips"}
      [] OTHER -> {}
IsChoice(k) == Choices(k) # {}

\* argparse: type=int / type=float / choices=...; everything else is stored as the string it is
ArgparseOK(k, v) ==
    CASE k = "flag"  -> Is(v, "flag")
      [] k = "int"   -> Is(v, "int")
      [] k = "float" -> Is(v, "int") \/ Is(v, "dec")
      [] IsChoice(k) -> Is(v, "str") /\ v.str \in Choices(k)
      [] OTHER       -> TRUE
ArgVal(k, v) ==
    CASE k = "flag"  -> B(TRUE)
      [] k = "float" -> IF Is(v, "int") THEN Dec(v.int, 1) ELSE v
      [] OTHER       -> v

\* the loaders' conversions (ImageLoader.create_from_args, CollectionLoader.create_from_args)
AllowedKeys == {" ", "A", "B", "C", "D", "E", "F", "G", "H", "I", "J", "K", "L", "M", "N", "O", "P", "Q", "R", "S", "T", "U", "V", "W", "X", "Y", "Z"}
CropConv(v) ==      \* "T,R,B,L" | "V,H" | "N"  ->  [top, right, bottom, left]
    IF v = None THEN None
    ELSE IF ~Is(v, "ints") THEN Bad
    ELSE LET c == v.ints IN
         IF \E i \in 1..Len(c) : c[i] < 0 THEN Bad
         ELSE IF Len(c) = 1 THEN L(<<I(c[1]), I(c[1]), I(c[1]), I(c[1])>>)
         ELSE IF Len(c) = 2 THEN L(<<I(c[1]), I(c[2]), I(c[1]), I(c[2])>>)
         ELSE IF Len(c) = 4 THEN L(<<I(c[1]), I(c[2]), I(c[3]), I(c[4])>>)
         ELSE Bad
HduConv(v) ==       \* "2" -> 2 (every file); "1,2" -> [1, 2] (per file)
    IF v = None THEN None
    ELSE IF ~Is(v, "ints") THEN Bad
    ELSE IF Len(v.ints) = 1 THEN I(v.ints[1]) ELSE L([i \in 1..Len(v.ints) |-> I(v.ints[i])])
KeyConv(v) ==
    IF v = None THEN None
    ELSE IF ~Is(v, "keys") THEN Bad
    ELSE IF \E i \in 1..Len(v.keys) : v.keys[i] \notin AllowedKeys THEN Bad
    ELSE IF Len(v.keys) = 1 THEN S(v.keys[1]) ELSE L([i \in 1..Len(v.keys) |-> S(v.keys[i])])
NumConv(v) == IF v = None THEN None ELSE IF Is(v, "int") \/ Is(v, "dec") THEN v ELSE Bad
TilingConv(v) == CASE v = S("auto") -> Enum("AUTO_DETECT") [] v = S("tan") -> Enum("TAN") [] v = S("toast") -> Enum("TOAST")
                   [] v = S("hips") -> Enum("HIPS") [] OTHER -> Bad
\* the documented conversion of an option of kind k from the stored command-line value to the library value
Conv(k, v) ==
    CASE k = "crop"   -> CropConv(v)
      [] k = "hdus"   -> HduConv(v)
      [] k = "keys"   -> KeyConv(v)
      [] k = "number" -> NumConv(v)
      [] k = "choice:tiling" -> TilingConv(v)
      [] OTHER        -> v
SameValue(a, b) ==      \* 1 and 1.0 are the same number to the library
    \/ a = b
    \/ Is(a, "int") /\ Is(b, "dec") /\ b.dec = <<a.int, 1>>
    \/ Is(b, "int") /\ Is(a, "dec") /\ a.dec = <<b.int, 1>>

\* ------------------------------------------------------------------ value sets (the "small value set" of the task)
Vals(k) ==
    LET L1(x) == IF Level >= 1 THEN x ELSE {}
        L2(x) == IF Level >= 2 THEN x ELSE {}
    IN
    CASE k = "flag"   -> {Flag}
      [] k = "int"    -> {I(2), Junk("x")} \cup L1({I(1)}) \cup L2({I(0), I(5)})
      [] k = "depth"  -> {I(1)} \cup L2({I(0), I(3)})
      [] k = "float"  -> {Dec(1, 2), Junk("x")} \cup L1({I(2)})
      [] k = "name"   -> {S("Alpha")} \cup L2({S("Beta Gamma"), S("Toasty")})
      [] k = "str"    -> {S("thing")}
      [] k = "dir"    -> {Dir("outA")} \cup L2({Dir("outB")})
      [] k = "indir"  -> {Dir("pyr")}
      [] k = "crop"   -> {Ints(<<1, 2>>), Ints(<<1, 2, 3>>)} \cup L1({Ints(<<3>>), Ints(<<1, 2, 3, 4>>)}) \cup L2({Ints(<<0>>), Junk("x")})
      [] k = "hdus"   -> {Ints(<<0, 1>>), Junk("a")} \cup L1({Ints(<<1>>)})
      [] k = "keys"   -> {Keys(<<"A", "B">>), Keys(<<"AB">>)} \cup L1({Keys(<<"A">>)}) \cup L2({Keys(<<"a">>), Keys(<<" ">>)})
      [] k = "key1"   -> {S("A")} \cup L2({S("B"), S("AB")})
      [] k = "number" -> {Dec(5, 2), Junk("abc")} \cup L1({I(7)})
      [] k = "path:img"   -> {Path("sky.png")} \cup L2({Path("avm.png")})
      [] k = "path:study" -> {Path("sky.png"), Path("avm.png"), Path("map.fits")}
      [] k = "path:avm"   -> {Path("sky.png"), Path("avm.png"), Path("title.png")}
      [] k = "path:avmfrom" -> {Path("avm.png")} \cup L2({Path("sky.png")})
      [] k = "path:wcs"   -> {Path("wcs.fits")} \cup L2({Path("map.fits")})
      [] k = "path:hp"    -> {Path("hp.fits")}
      [] k = "path:wwtl"  -> {Path("layer.wwtl")}
      [] k = "path:out"   -> {Path("thumb-out.jpg")}
      [] k = "paths"      -> {L(<<Path("f1.fits"), Path("f2.fits")>>)} \cup L1({L(<<Path("f1.fits")>>)})
      [] IsChoice(k)      -> {S(c) : c \in Choices(k)} \cup {Junk("mercator")}
      [] OTHER -> {}

\* ------------------------------------------------------------------ the declaration table (the contract)
\* o     the option string (positionals: their metavar)        kind   see ArgparseOK / Conv / Vals
\* def   what argparse stores when the option is omitted        lib    the library's own default for the destination (Req: none)
\* dest  the library parameters <<call, parameter>> the option must reach (empty: the option selects calls)
\* also  further parameters that may change with the option      sel    calls that may appear / disappear with the option
\* pos   positional (required by argparse)                      need   optional for argparse, but the command cannot run without it
Op(o, kind, def, lib, dest) ==
    [o |-> o, kind |-> kind, def |-> def, lib |-> lib, dest |-> dest, also |-> {}, sel |-> {}, pos |-> FALSE, need |-> FALSE]
Pos(o, kind, dest) == [Op(o, kind, None, Req, dest) EXCEPT !.pos = TRUE]
Sel(o, kind, def, also, sel) == [Op(o, kind, def, Req, {}) EXCEPT !.also = also, !.sel = sel]
Par(call) == Op("--parallelism", "int", None, None, {<<call, "parallel">>})
LoaderOps == <<Op("--black-to-transparent", "flag", B(FALSE), B(FALSE), {<<"ImageLoader", "black_to_transparent">>}),
               Op("--colorspace-processing", "choice:cs", S("srgb"), S("srgb"), {<<"ImageLoader", "colorspace_processing">>}),
               Op("--crop", "crop", None, None, {<<"ImageLoader", "crop">>}),
               Op("--psd-single-layer", "int", None, None, {<<"ImageLoader", "psd_single_layer">>})>>
NameOp == Op("--name", "name", S("Toasty"), S("Toasty"), {<<"Builder.set_name", "name">>})      \* Builder() itself names the set "Toasty"
OutdirOp == Op("--outdir", "dir", S("."), Req, {<<"PyramidIO", "base_dir">>})
ThumbCalls == {"Builder.make_placeholder_thumbnail", "Builder.make_thumbnail_from_other"}
ThumbOp == Sel("--placeholder-thumbnail", "flag", B(FALSE), {}, ThumbCalls)
AstroCalls == {"AVM.from_image", "Builder.apply_avm_info", "Builder.apply_wcs_info", "Builder.default_tiled_study_astrometry"}

Subs == {"cascade", "check-avm", "make-thumbnail", "tile-allsky", "tile-healpix", "tile-multi-tan", "tile-study", "tile-wwtl",
         "transform fx3-to-rgb", "transform u8-to-rgb", "view"}

D(cmd) ==
    CASE cmd = "cascade" ->
            <<Par("cascade_images"),
              Op("--format", "choice:format", None, None, {<<"PyramidIO", "default_format">>}),
              [Op("--start", "int", None, Req, {<<"cascade_images", "start">>}) EXCEPT !.need = TRUE],
              Pos("DIR", "indir", {<<"PyramidIO", "base_dir">>})>>
      [] cmd = "check-avm" ->
            <<Sel("--print", "flag", B(FALSE), {}, {}),
              Sel("--exitcode", "flag", B(FALSE), {}, {}),
              [Pos("PATH", "path:avm", {<<"AVM.from_image", "filename">>}) EXCEPT !.sel = {"ImageLoader", "ImageLoader.load_path"}]>>
      [] cmd = "make-thumbnail" ->
            LoaderOps \o <<Pos("IN-PATH", "path:img", {<<"ImageLoader.load_path", "path">>}),
                           Pos("OUT-PATH", "path:out", {})>>
      [] cmd = "tile-allsky" ->
            LoaderOps \o <<NameOp, OutdirOp, ThumbOp,
                           Sel("--projection", "choice:proj", S("plate-carree"),
                               {<<"sampler", "factory">>, <<"Builder.toast_base", "is_planet">>, <<"Builder.toast_base", "is_pano">>}, {}),
                           Par("Builder.toast_base"),
                           Pos("PATH", "path:img", {<<"ImageLoader.load_path", "path">>}),
                           Pos("DEPTH", "depth", {<<"Builder.toast_base", "depth">>})>>
      [] cmd = "tile-healpix" ->
            <<Op("--galactic", "flag", B(FALSE), B(FALSE), {<<"healpix_fits_file_sampler", "force_galactic">>}),
              OutdirOp, Par("Builder.toast_base"),
              Pos("PATH", "path:hp", {<<"healpix_fits_file_sampler", "path">>}),
              Pos("DEPTH", "depth", {<<"Builder.toast_base", "depth">>})>>
      [] cmd = "tile-multi-tan" ->
            <<Par("MultiTanProcessor.tile"),
              Op("--hdu-index", "int", None, None, {<<"SimpleFitsCollection", "hdu_index">>}),
              Op("--wcs-key", "key1", S(" "), S(" "), {<<"SimpleFitsCollection", "wcs_key">>}),
              OutdirOp,
              Pos("PATHS", "paths", {<<"SimpleFitsCollection", "paths">>})>>
      [] cmd = "tile-study" ->
            LoaderOps \o <<NameOp,
                           Sel("--avm", "flag", B(FALSE), {}, AstroCalls),
                           [Sel("--avm-from", "path:avmfrom", None, {}, AstroCalls) EXCEPT !.dest = {<<"AVM.from_image", "filename">>}],
                           [Sel("--fits-wcs", "path:wcs", None, {}, AstroCalls) EXCEPT !.dest = {<<"Builder.apply_wcs_info", "wcs">>}],
                           ThumbOp, OutdirOp,
                           [Pos("PATH", "path:study", {<<"ImageLoader.load_path", "path">>}) EXCEPT !.also = {<<"AVM.from_image", "filename">>, <<"Builder.apply_wcs_info", "wcs">>}, !.sel = AstroCalls]>>
      [] cmd = "tile-wwtl" ->
            LoaderOps \o <<NameOp, ThumbOp, OutdirOp,
                           Pos("WWTL-PATH", "path:wwtl", {<<"Builder.load_from_wwtl", "wwtl_path">>})>>
      [] cmd = "transform fx3-to-rgb" ->
            <<Par("f16x3_to_rgb"),
              [Op("--start", "int", None, Req, {<<"f16x3_to_rgb", "start_depth">>}) EXCEPT !.need = TRUE],
              Op("--clip", "float", Dec(1, 1), I(1), {<<"f16x3_to_rgb", "clip">>}),
              [Op("--outdir", "dir", None, None, {<<"PyramidIO#2", "base_dir">>}) EXCEPT !.also = {<<"f16x3_to_rgb", "pio_out">>}, !.sel = {"PyramidIO#2"}],
              Pos("DIR", "indir", {<<"PyramidIO", "base_dir">>})>>
      [] cmd = "transform u8-to-rgb" ->
            <<Par("u8_to_rgb"),
              [Op("--start", "int", None, Req, {<<"u8_to_rgb", "depth">>}) EXCEPT !.need = TRUE],
              [Op("--outdir", "dir", None, None, {<<"PyramidIO#2", "base_dir">>}) EXCEPT !.also = {<<"u8_to_rgb", "pio_out">>}, !.sel = {"PyramidIO#2"}],
              Pos("DIR", "indir", {<<"PyramidIO", "base_dir">>})>>
      [] cmd = "view" ->     \* local mode only (--tunnel starts ssh)
            <<Op("--hdu-index", "hdus", None, None, {<<"SimpleFitsCollection", "hdu_index">>}),
              Op("--wcs-key", "keys", None, S(" "), {<<"SimpleFitsCollection", "wcs_key">>}),
              Op("--blankval", "number", None, None, {<<"SimpleFitsCollection", "blankval">>}),
              Par("FitsTiler.tile"),
              Op("--browser", "str", None, None, {<<"preview_wtml", "browser">>}),
              Op("--appurl", "str", None, None, {<<"preview_wtml", "app_url">>}),
              Sel("--tile-only", "flag", B(FALSE), {}, {"preview_wtml"}),
              Op("--tiling-method", "choice:tiling", S("auto"), Enum("AUTO_DETECT"), {<<"FitsTiler", "tiling_method">>}),
              Pos("PATHS", "paths", {<<"SimpleFitsCollection", "paths">>})>>

\* (TLC evaluates a constant zero-arity definition once: the tables below are what the rest of the module reads)
DT == [s \in Subs |-> D(s)]
\* short spellings argparse also accepts (the harness renders an option either way)
Aliases == ("--parallelism" :> "-j") @@ ("--format" :> "-f") @@ ("--print" :> "-p") @@ ("--clip" :> "-c") @@ ("--browser" :> "-b")
Idx(cmd) == 1..Len(DT[cmd])
OptNamesT == [s \in Subs |-> {DT[s][i].o : i \in 1..Len(DT[s])}]
OptNames(cmd) == OptNamesT[cmd]
DeclMap == [s \in Subs |-> [o \in OptNamesT[s] |-> DT[s][CHOOSE i \in 1..Len(DT[s]) : DT[s][i].o = o]]]
DeclOf(cmd, o) == DeclMap[cmd][o]
KindSet == UNION {{DT[s][i].kind : i \in 1..Len(DT[s])} : s \in Subs}
ValsT == [k \in KindSet |-> Vals(k)]
\* options declared by some subcommand and not by this one, with one value each: argparse must refuse them
AllOptionNames == UNION {{o \in OptNames(s) : ~DeclOf(s, o).pos} : s \in Subs} \cup {"--tunnel-bogus", "--depth"}
\* (`toasty view` also declares --tunnel / --tunnel-initcmd, which this model leaves out: they start ssh)
ForeignNames(cmd) == AllOptionNames \ OptNames(cmd)
ForeignVal(o) == LET owners == {s \in Subs : o \in OptNames(s)} IN
                 IF owners = {} THEN S("thing")
                 ELSE LET k == DeclOf(CHOOSE s \in owners : TRUE, o).kind IN CHOOSE v \in Vals(k) : ArgparseOK(k, v)
ForeignT == [s \in Subs |-> [o \in ForeignNames(s) |-> ForeignVal(o)]]
Foreign(cmd) == DOMAIN ForeignT[cmd]

\* ------------------------------------------------------------------ process state
InitProc == [loader |-> [black_to_transparent |-> B(FALSE), colorspace_processing |-> S("srgb"), crop |-> None, psd_single_layer |-> None],
             coll |-> [blankval |-> None, hdu_index |-> None, wcs_key |-> None],
             maxpix |-> "limit", infomsg |-> TRUE]

\* ------------------------------------------------------------------ the transcription
NoFacts == {}
\* by: the library entry point that raises when status = "raise" (a harness that replaces that entry point by a recorder sees no exception)
OutBy(status, exit, calls, facts, by) ==
    [status |-> status, exit |-> exit, by |-> by,
     calls |-> [c \in {p[1] : p \in calls} |-> (CHOOSE p \in calls : p[1] = c)[2]],
     facts |-> [c \in {p[1] : p \in facts} |-> (CHOOSE p \in facts : p[1] = c)[2]]]
Out(status, exit, calls, facts) ==
    [status |-> status, exit |-> exit, by |-> "",
     calls |-> [c \in {p[1] : p \in calls} |-> (CHOOSE p \in calls : p[1] = c)[2]],
     facts |-> [c \in {p[1] : p \in facts} |-> (CHOOSE p \in facts : p[1] = c)[2]]]
Usage == Out("usage", 2, {}, NoFacts)
RaiseExit == 99
Val(cmd, opts, o) == IF o \in DOMAIN opts THEN ArgVal(DeclOf(cmd, o).kind, opts[o]) ELSE DeclOf(cmd, o).def

PioCall(label, dir, fmt) == <<label, [base_dir |-> dir, scheme |-> S("L/Y/YX"), default_format |-> fmt]>>
\* ImageLoader.create_from_args: three attributes are assigned from the settings, the crop only when the option was given
\* (an instance without its own crop reads the class attribute)
LoaderAttrs(cmd, opts, ps) ==
    [black_to_transparent |-> Val(cmd, opts, "--black-to-transparent"),
     colorspace_processing |-> Val(cmd, opts, "--colorspace-processing"),
     psd_single_layer |-> Val(cmd, opts, "--psd-single-layer"),
     crop |-> IF "--crop" \in DOMAIN opts THEN CropConv(opts["--crop"]) ELSE ps.loader.crop]
LoaderBad(cmd, opts, ps) == LoaderAttrs(cmd, opts, ps).crop = Bad
\* what ImageLoader.load_path returns: PIL inputs are cropped / given an alpha channel, array inputs (FITS) are not
ImageFacts(p, attrs) ==
    LET f == FileInfo(p)
        c == IF attrs.crop = None THEN <<0, 0, 0, 0>> ELSE [i \in 1..4 |-> attrs.crop.list[i].int]
    IN IF f.fmt = "png"
       THEN [mode |-> S(IF attrs.black_to_transparent = B(TRUE) THEN "RGBA" ELSE "RGB"), default_format |-> S("png"),
             width |-> I(f.w - c[2] - c[4]), height |-> I(f.h - c[1] - c[3])]
       ELSE [mode |-> S("F"), default_format |-> S("fits"), width |-> I(f.w), height |-> I(f.h)]
ThumbCall(cmd, opts) ==
    IF Val(cmd, opts, "--placeholder-thumbnail") = B(TRUE) THEN <<"Builder.make_placeholder_thumbnail", [self |-> Obj("Builder")]>>
    ELSE <<"Builder.make_thumbnail_from_other", [self |-> Obj("Builder"), thumbnail_image |-> Obj("image")]>>
ThumbFact(cmd, opts) == IF Val(cmd, opts, "--placeholder-thumbnail") = B(TRUE) THEN S("placeholder") ELSE S("image")
FinishCalls(cmd, opts) ==
    {<<"Builder.set_name", [self |-> Obj("Builder"), name |-> Val(cmd, opts, "--name")]>>,
     <<"Builder.write_index_rel_wtml", [self |-> Obj("Builder"), add_place_for_toast |-> B(FALSE)]>>}

Cascade(opts, ps) ==
    LET G(o) == Val("cascade", opts, o)
        pio == PioCall("PyramidIO", G("DIR"), G("--format"))
    IN IF G("--start") = None THEN Out("die", 1, {pio}, NoFacts)
       ELSE Out("ok", 0,
                {pio, <<"cascade_images", [pio |-> Obj("PyramidIO"), start |-> G("--start"), merger |-> Fn("averaging_merger"),
                                           parallel |-> G("--parallelism"), cli_progress |-> B(TRUE), tile_filter |-> None]>>},
                {<<"resolve_parallelism", IF G("--start").int >= 1 THEN L(<<G("--parallelism")>>) ELSE L(<<>>)>>})

CheckAvm(opts, ps) ==
    LET G(o) == Val("check-avm", opts, o)
        f == FileInfo(G("PATH").path)
        from == <<"AVM.from_image", [filename |-> G("PATH"), xmp_packet_index |-> None]>>
        code(c) == IF G("--exitcode") = B(TRUE) THEN c ELSE 0
    IN IF f.avm = "none" THEN Out("ok", code(1), {from}, NoFacts)
       ELSE IF f.avm = "title" THEN Out("ok", code(1), {from}, NoFacts)          \* tags, but no spatial information
       ELSE Out("ok", 0, {from, <<"ImageLoader", InitProc.loader>>,
                          <<"ImageLoader.load_path", [self |-> Obj("ImageLoader"), path |-> G("PATH")]>>},
                {<<"image", ImageFacts(G("PATH").path, InitProc.loader)>>})

MakeThumbnail(opts, ps) ==
    LET cmd == "make-thumbnail"
        G(o) == Val(cmd, opts, o)
        attrs == LoaderAttrs(cmd, opts, ps)
    IN IF LoaderBad(cmd, opts, ps) THEN OutBy("raise", RaiseExit, {}, NoFacts, "ImageLoader.create_from_args")
       ELSE Out("ok", 0, {<<"ImageLoader", attrs>>, <<"ImageLoader.load_path", [self |-> Obj("ImageLoader"), path |-> G("IN-PATH")]>>},
                {<<"image", ImageFacts(G("IN-PATH").path, attrs)>>, <<"written", G("OUT-PATH")>>})

\* the if-chain of tile_allsky_impl
Projection(p) ==
    CASE p = S("plate-carree") -> [factory |-> "plate_carree_sampler", planet |-> FALSE, pano |-> FALSE]
      [] p = S("plate-carree-galactic") -> [factory |-> "plate_carree_galactic_sampler", planet |-> FALSE, pano |-> FALSE]
      [] p = S("plate-carree-ecliptic") -> [factory |-> "plate_carree_ecliptic_sampler", planet |-> FALSE, pano |-> FALSE]
      [] p = S("plate-carree-planet") -> [factory |-> "plate_carree_planet_sampler", planet |-> TRUE, pano |-> FALSE]
      [] p = S("plate-carree-planet-zeroleft") -> [factory |-> "plate_carree_planet_zeroleft_sampler", planet |-> TRUE, pano |-> FALSE]
      [] p = S("plate-carree-planet-zeroright") -> [factory |-> "plate_carree_zeroright_sampler", planet |-> TRUE, pano |-> FALSE]
      [] p = S("plate-carree-panorama") -> [factory |-> "plate_carree_sampler", planet |-> FALSE, pano |-> TRUE]
DataSetType(pr) == IF pr.planet THEN S("Planet") ELSE IF pr.pano THEN S("Panorama") ELSE S("Sky")

TileAllsky(opts, ps) ==
    LET cmd == "tile-allsky"
        G(o) == Val(cmd, opts, o)
        attrs == LoaderAttrs(cmd, opts, ps)
        pr == Projection(G("--projection"))
    IN IF LoaderBad(cmd, opts, ps) THEN OutBy("raise", RaiseExit, {}, NoFacts, "ImageLoader.create_from_args")
       ELSE Out("ok", 0,
                {<<"ImageLoader", attrs>>, <<"ImageLoader.load_path", [self |-> Obj("ImageLoader"), path |-> G("PATH")]>>,
                 PioCall("PyramidIO", G("--outdir"), None),
                 <<"sampler", [factory |-> Fn(pr.factory), data |-> Obj("image")]>>,
                 <<"Builder", [pio |-> Obj("PyramidIO")]>>,
                 ThumbCall(cmd, opts),
                 <<"Builder.toast_base", [self |-> Obj("Builder"), sampler |-> Obj("sampler"), depth |-> G("DEPTH"), is_planet |-> B(pr.planet),
                                          is_pano |-> B(pr.pano), parallel |-> G("--parallelism"), cli_progress |-> B(TRUE)]>>}
                \cup FinishCalls(cmd, opts),
                {<<"image", ImageFacts(G("PATH").path, attrs)>>, <<"resolve_parallelism", L(<<G("--parallelism")>>)>>,
                 <<"wtml", [dir |-> G("--outdir"), name |-> G("--name"), dataset_type |-> DataSetType(pr), levels |-> G("DEPTH"), thumb |-> ThumbFact(cmd, opts)]>>})

TileHealpix(opts, ps) ==
    LET cmd == "tile-healpix"
        G(o) == Val(cmd, opts, o)
    IN Out("ok", 0,
           {PioCall("PyramidIO", G("--outdir"), S("fits")),
            <<"healpix_fits_file_sampler", [path |-> G("PATH"), extension |-> None, interpolation |-> S("nearest"), force_galactic |-> G("--galactic")]>>,
            <<"Builder", [pio |-> Obj("PyramidIO")]>>,
            <<"Builder.toast_base", [self |-> Obj("Builder"), sampler |-> Obj("healpix_fits_file_sampler"), depth |-> G("DEPTH"), is_planet |-> B(FALSE),
                                     is_pano |-> B(FALSE), parallel |-> G("--parallelism"), cli_progress |-> B(TRUE)]>>,
            <<"Builder.write_index_rel_wtml", [self |-> Obj("Builder"), add_place_for_toast |-> B(FALSE)]>>},
           NoFacts)

TileMultiTan(opts, ps) ==
    LET cmd == "tile-multi-tan"
        G(o) == Val(cmd, opts, o)
    IN Out("ok", 0,
           {PioCall("PyramidIO", G("--outdir"), S("fits")),
            <<"Builder", [pio |-> Obj("PyramidIO")]>>,
            <<"SimpleFitsCollection", [paths |-> G("PATHS"), hdu_index |-> G("--hdu-index"), wcs_key |-> G("--wcs-key"), blankval |-> None, kwargs |-> L(<<>>)]>>,
            <<"MultiTanProcessor", [collection |-> Obj("SimpleFitsCollection")]>>,
            <<"MultiTanProcessor.compute_global_pixelization", [self |-> Obj("MultiTanProcessor"), builder |-> Obj("Builder")]>>,
            <<"MultiTanProcessor.tile", [self |-> Obj("MultiTanProcessor"), pio |-> Obj("PyramidIO"), parallel |-> G("--parallelism"),
                                         cli_progress |-> B(TRUE), kwargs |-> L(<<>>)]>>,
            <<"Builder.write_index_rel_wtml", [self |-> Obj("Builder"), add_place_for_toast |-> B(FALSE)]>>},
           {<<"resolve_parallelism", L(<<G("--parallelism")>>)>>,
            <<"wtml", [dir |-> G("--outdir"), name |-> S("Toasty")]>>})

\* tile_study_impl: where the astrometry comes from
AstroSource(opts, f) ==
    IF "--avm-from" \in DOMAIN opts THEN "avm-from"
    ELSE IF "--avm" \in DOMAIN opts THEN "avm"
    ELSE IF "--fits-wcs" \in DOMAIN opts THEN "fits-wcs"
    ELSE IF f.wcs THEN "own" ELSE "default"
TileStudy(opts, ps) ==
    LET cmd == "tile-study"
        G(o) == Val(cmd, opts, o)
        attrs == LoaderAttrs(cmd, opts, ps)
        img == G("PATH")
        f == FileInfo(img.path)
        src == AstroSource(opts, f)
        avmIn == IF src = "avm-from" THEN G("--avm-from") ELSE img
        dims == [width |-> Ref("image.width"), height |-> Ref("image.height")]
        head == {<<"ImageLoader", attrs>>, <<"ImageLoader.load_path", [self |-> Obj("ImageLoader"), path |-> img]>>,
                 PioCall("PyramidIO", G("--outdir"), Ref("image.default_format")),
                 <<"Builder", [pio |-> Obj("PyramidIO")]>>,
                 <<"Builder.prepare_study_tiling", [self |-> Obj("Builder"), image |-> Obj("image")]>>,
                 <<"StudyTiling", [width |-> Ref("image.width"), height |-> Ref("image.height")]>>}
        astro == CASE src \in {"avm", "avm-from"} ->
                         {<<"AVM.from_image", [filename |-> avmIn, xmp_packet_index |-> None]>>,
                          <<"Builder.apply_avm_info", [self |-> Obj("Builder"), avm |-> Obj("AVM.from_image")] @@ dims>>}
                   [] src = "fits-wcs" -> {<<"Builder.apply_wcs_info", [self |-> Obj("Builder"), wcs |-> Wcs(G("--fits-wcs").path)] @@ dims>>}
                   [] src = "own" -> {<<"Builder.apply_wcs_info", [self |-> Obj("Builder"), wcs |-> Wcs(img.path)] @@ dims>>}
                   [] src = "default" -> {<<"Builder.default_tiled_study_astrometry", [self |-> Obj("Builder")]>>}
        facts == {<<"image", ImageFacts(img.path, attrs)>>}
        avmMissing == src \in {"avm", "avm-from"} /\ FileInfo(avmIn.path).avm # "full"
        thumbFails == f.fmt # "png" /\ Val(cmd, opts, "--placeholder-thumbnail") = B(FALSE)      \* "cannot thumbnail-ify non-RGB Image"
    IN IF LoaderBad(cmd, opts, ps) THEN OutBy("raise", RaiseExit, {}, NoFacts, "ImageLoader.create_from_args")
       ELSE IF avmMissing THEN OutBy("raise", RaiseExit, head \cup {<<"AVM.from_image", [filename |-> avmIn, xmp_packet_index |-> None]>>}, facts, "AVM.from_image")
       ELSE IF thumbFails THEN OutBy("raise", RaiseExit, head \cup astro \cup {ThumbCall(cmd, opts)}, facts, "Builder.make_thumbnail_from_other")
       ELSE Out("ok", 0,
                head \cup astro \cup {ThumbCall(cmd, opts),
                    <<"Builder.execute_study_tiling", [self |-> Obj("Builder"), image |-> Obj("image"), tiling |-> Obj("StudyTiling"), cli_progress |-> B(TRUE)]>>}
                \cup FinishCalls(cmd, opts),
                facts \cup {<<"wtml", [dir |-> G("--outdir"), name |-> G("--name"), astrometry |-> S(src), thumb |-> ThumbFact(cmd, opts)]>>})

TileWwtl(opts, ps) ==
    LET cmd == "tile-wwtl"
        G(o) == Val(cmd, opts, o)
        attrs == LoaderAttrs(cmd, opts, ps)
        head == {PioCall("PyramidIO", G("--outdir"), None), <<"Builder", [pio |-> Obj("PyramidIO")]>>,
                 <<"Builder.load_from_wwtl", [self |-> Obj("Builder"), cli_settings |-> Obj("settings"), wwtl_path |-> G("WWTL-PATH"), cli_progress |-> B(TRUE)]>>}
    IN IF LoaderBad(cmd, opts, ps) THEN OutBy("raise", RaiseExit, head, NoFacts, "ImageLoader.create_from_args")
       ELSE Out("ok", 0, head \cup {<<"ImageLoader", attrs>>, ThumbCall(cmd, opts)} \cup FinishCalls(cmd, opts),
                {<<"image", ImageFacts("sky.png", attrs)>>,           \* the layer file carries sky.png
                 <<"wtml", [dir |-> G("--outdir"), name |-> G("--name"), thumb |-> ThumbFact(cmd, opts)]>>})

Transform(cmd, fname, opts, ps) ==
    LET G(o) == Val(cmd, opts, o)
        second == IF G("--outdir") = None THEN {} ELSE {PioCall("PyramidIO#2", G("--outdir"), None)}
        common == [pio |-> Obj("PyramidIO"), pio_out |-> IF G("--outdir") = None THEN None ELSE Obj("PyramidIO#2"),
                   parallel |-> G("--parallelism"), cli_progress |-> B(TRUE)]
        args == IF fname = "f16x3_to_rgb" THEN common @@ [start_depth |-> G("--start"), clip |-> G("--clip")] ELSE common @@ [depth |-> G("--start")]
        calls == {PioCall("PyramidIO", G("DIR"), None), <<fname, args>>} \cup second
    IN \* --start omitted: the library is called with depth None and fails on it (after deciding the parallelism)
       IF G("--start") = None THEN OutBy("raise", RaiseExit, calls, {<<"resolve_parallelism", L(<<G("--parallelism")>>)>>}, fname)
       ELSE Out("ok", 0, calls, {<<"resolve_parallelism", L(<<G("--parallelism")>>)>>})

View(opts, ps) ==
    LET cmd == "view"
        G(o) == Val(cmd, opts, o)
        hdu == IF "--hdu-index" \in DOMAIN opts THEN HduConv(opts["--hdu-index"]) ELSE ps.coll.hdu_index
        key == IF "--wcs-key" \in DOMAIN opts THEN KeyConv(opts["--wcs-key"]) ELSE ps.coll.wcs_key
        blank == IF "--blankval" \in DOMAIN opts THEN NumConv(opts["--blankval"]) ELSE ps.coll.blankval
        calls == {<<"SimpleFitsCollection", [paths |-> G("PATHS"), hdu_index |-> hdu, wcs_key |-> key, blankval |-> blank, kwargs |-> L(<<>>)]>>,
                  <<"FitsTiler", [coll |-> Obj("SimpleFitsCollection"), out_dir |-> None, tiling_method |-> TilingConv(G("--tiling-method")), add_place_for_toast |-> B(TRUE)]>>,
                  <<"FitsTiler.tile", [self |-> Obj("FitsTiler"), cli_progress |-> B(TRUE), parallel |-> G("--parallelism"), override |-> B(FALSE), kwargs |-> L(<<>>)]>>}
        show == <<"preview_wtml", [wtml_path |-> Ref("tiler.index_rel"), browser |-> G("--browser"), app_type |-> S("research"), app_url |-> G("--appurl")]>>
    IN IF Bad \in {hdu, key, blank} THEN OutBy("raise", RaiseExit, {}, NoFacts, "CollectionLoader.create_from_args")
       ELSE IF G("--tile-only") = B(TRUE) THEN Out("ok", 0, calls, NoFacts) ELSE Out("ok", 0, calls \cup {show}, NoFacts)

Impl(cmd, opts, ps) ==
    CASE cmd = "cascade" -> Cascade(opts, ps)
      [] cmd = "check-avm" -> CheckAvm(opts, ps)
      [] cmd = "make-thumbnail" -> MakeThumbnail(opts, ps)
      [] cmd = "tile-allsky" -> TileAllsky(opts, ps)
      [] cmd = "tile-healpix" -> TileHealpix(opts, ps)
      [] cmd = "tile-multi-tan" -> TileMultiTan(opts, ps)
      [] cmd = "tile-study" -> TileStudy(opts, ps)
      [] cmd = "tile-wwtl" -> TileWwtl(opts, ps)
      [] cmd = "transform fx3-to-rgb" -> Transform(cmd, "f16x3_to_rgb", opts, ps)
      [] cmd = "transform u8-to-rgb" -> Transform(cmd, "u8_to_rgb", opts, ps)
      [] cmd = "view" -> View(opts, ps)

\* argparse first: an unknown option, a missing positional, a token the declared type / choice list refuses -> usage error, exit 2
Rejected(cmd, opts) ==
    \/ \E o \in DOMAIN opts : o \notin OptNames(cmd)
    \/ \E i \in Idx(cmd) : DT[cmd][i].pos /\ DT[cmd][i].o \notin DOMAIN opts
    \/ \E o \in DOMAIN opts : o \in OptNames(cmd) /\ ~ArgparseOK(DeclOf(cmd, o).kind, opts[o])
Eff(cmd, opts, ps) == IF Rejected(cmd, opts) THEN Usage ELSE Impl(cmd, opts, ps)

\* what the invocation leaves in the process.  As built: nothing (create_from_args assigns to the instance; MAX_IMAGE_PIXELS is
\* restored in a finally).  Leaky: the negative control - the loader's attributes are stored on the class.
UsesLoader(cmd) == "--crop" \in OptNames(cmd)
ProcAfter(cmd, opts, ps) ==
    IF Leaky /\ UsesLoader(cmd) /\ ~Rejected(cmd, opts) /\ ~LoaderBad(cmd, opts, ps)
    THEN [ps EXCEPT !.loader = LoaderAttrs(cmd, opts, ps)] ELSE ps

\* ------------------------------------------------------------------ state
VARIABLES sub, asg, last,     \* SpaceSpec: the invocation under consideration; index of the last option added
          eff,                \*            its effective call Eff(sub, asg, InitProc)
          hist, outs, proc    \* HistSpec: invocations made in this process (indices into Invs), their outcomes, the process state
vars == <<sub, asg, last, eff, hist, outs, proc>>
Empty == [x \in {} |-> None]
With(a, o, v) == [x \in DOMAIN a \cup {o} |-> IF x = o THEN v ELSE a[x]]
Without(a, o) == [x \in DOMAIN a \ {o} |-> a[x]]
NonPos(s, a) == {o \in DOMAIN a : o \in OptNames(s) /\ ~DeclOf(s, o).pos}

\* every (subcommand, option subset, value) combination exactly once: options are added in declaration order;
\* an undeclared option (one value) may close the assignment
SpaceInit == sub \in Subs /\ asg = Empty /\ last = 0 /\ eff = Eff(sub, Empty, InitProc) /\ hist = <<>> /\ outs = <<>> /\ proc = InitProc
AddDeclared == \E i \in Idx(sub) : i > last /\ \E v \in ValsT[DT[sub][i].kind] :
                   /\ asg' = With(asg, DT[sub][i].o, v) /\ last' = i /\ eff' = Eff(sub, asg', InitProc)
                   /\ UNCHANGED <<sub, hist, outs, proc>>
AddForeign == /\ last < 1000 /\ Cardinality(NonPos(sub, asg)) <= ForeignUpTo
              /\ \E o \in Foreign(sub) : /\ asg' = With(asg, o, ForeignT[sub][o]) /\ last' = 1000 /\ eff' = Eff(sub, asg', InitProc)
                                          /\ UNCHANGED <<sub, hist, outs, proc>>
SpaceNext == AddDeclared \/ AddForeign
SpaceSpec == SpaceInit /\ [][SpaceNext]_vars

HistInit == sub = "" /\ asg = Empty /\ last = 0 /\ eff = Usage /\ hist = <<>> /\ outs = <<>> /\ proc = InitProc
Invoke(i) == /\ Len(hist) < MaxInv
             /\ hist' = Append(hist, i)
             /\ outs' = Append(outs, Eff(Invs[i].sub, Invs[i].asg, proc))
             /\ proc' = ProcAfter(Invs[i].sub, Invs[i].asg, proc)
             /\ UNCHANGED <<sub, asg, last, eff>>
HistNext == \E i \in 1..Len(Invs) : Invoke(i)
HistSpec == HistInit /\ [][HistNext]_vars

\* ============================================================================ theorems (INVARIANTs of SpaceSpec)
E == eff
EffIsEff == eff = Eff(sub, asg, InitProc)
Declared == DOMAIN asg \subseteq OptNames(sub)
HasCall(e, c) == c \in DOMAIN e.calls
Arg(e, cp) == e.calls[cp[1]][cp[2]]
HasArg(e, cp) == HasCall(e, cp[1]) /\ cp[2] \in DOMAIN e.calls[cp[1]]
\* calls that do the work of a command (write tiles, thumbnails, WTML, start a browser)
WorkCalls == {"cascade_images", "Builder.toast_base", "Builder.execute_study_tiling", "MultiTanProcessor.tile", "FitsTiler.tile",
              "Builder.write_index_rel_wtml", "Builder.set_name", "preview_wtml"}

TypeOK == /\ E.status \in {"ok", "usage", "die", "raise"}
          /\ E.exit \in {0, 1, 2, RaiseExit}
          /\ (E.status = "usage") = (E.exit = 2) /\ (E.status = "raise") = (E.exit = RaiseExit) /\ (E.status = "die" => E.exit = 1)

\* (1) options a subcommand does not declare are rejected, before anything is called
UndeclaredRejected == ~Declared => (E.status = "usage" /\ DOMAIN E.calls = {})
\* ... so is a token the declared type or choice list refuses, and a missing positional
BadTokenRejected == Rejected(sub, asg) <=> E.status = "usage"
\* a value the loader's conversion refuses stops the command before any work is done
ConvOK(o) == Conv(DeclOf(sub, o).kind, ArgVal(DeclOf(sub, o).kind, asg[o])) # Bad
BadValueDoesNoWork == (Declared /\ ~Rejected(sub, asg) /\ \E o \in DOMAIN asg : ~ConvOK(o))
                          => (E.status = "raise" /\ DOMAIN E.calls \cap WorkCalls = {})
\* a run that does not end "ok" never reaches the end of the command
OnlyOkFinishes == E.status # "ok" => ~HasCall(E, "Builder.write_index_rel_wtml") /\ ~HasCall(E, "preview_wtml")

\* as-built: the commands in which a given option has no effect because another option takes precedence
Suppressed(s, a, o) ==
    \/ s = "view" /\ o \in {"--browser", "--appurl"} /\ "--tile-only" \in DOMAIN a
    \/ s = "tile-study" /\ o = "--fits-wcs" /\ ({"--avm", "--avm-from"} \cap DOMAIN a # {})
\* (2) every accepted option reaches its library parameter, with its value unchanged or with the documented conversion
Reaches(s, a, e, o) == LET d == DeclOf(s, o) IN
    \A cp \in d.dest : HasArg(e, cp) /\ Arg(e, cp) = (IF Is(Conv(d.kind, ArgVal(d.kind, a[o])), "path") /\ cp[2] = "wcs"
                                                     THEN Wcs(a[o].path) ELSE Conv(d.kind, ArgVal(d.kind, a[o])))
AcceptedReaches == E.status = "ok" => \A o \in DOMAIN asg : ~Suppressed(sub, asg, o) => Reaches(sub, asg, E, o)
\* ... and it is exactly one parameter, except for the options that select calls (their contract is stated separately below)
\*     and the options that only steer what the command itself prints / returns / writes
OutputOnly == {"--print", "--exitcode", "OUT-PATH"}
ExactlyOneParameter == \A i \in Idx(sub) : LET d == DT[sub][i] IN (d.sel = {} /\ d.also = {} /\ d.o \notin OutputOnly) => Cardinality(d.dest) = 1
\* (3) an omitted option reaches the library as the library's own default; where the library has none, as the default the help text documents
\* (until commit 4ee13a7 tile-multi-tan --hdu-index was a second entry: argparse default 0 against the library's None)
DefaultDeviations == {<<"view", "--wcs-key">>}                    \* the CLI passes None; SimpleFitsCollection's default is " " (None is treated alike)
\* (the two astrometry-source options select a source: omitted, they select nothing)
OmittedIsDefault(s, a, e, o) == LET d == DeclOf(s, o) IN
    o \notin {"--avm-from", "--fits-wcs"} => \A cp \in d.dest : HasArg(e, cp) => IF d.lib = Req THEN Arg(e, cp) = d.def ELSE SameValue(Arg(e, cp), d.lib)
OmittedAsBuilt == E.status = "ok" => \A o \in OptNames(sub) \ DOMAIN asg : <<sub, o>> \notin DefaultDeviations => OmittedIsDefault(sub, asg, E, o)
\* (4) options that argparse lets go but the command needs
NeedfulOmitted == \E i \in Idx(sub) : DT[sub][i].need /\ DT[sub][i].o \notin DOMAIN asg
NeededOptionStops == (Declared /\ ~Rejected(sub, asg) /\ NeedfulOmitted) => E.status \in {"die", "raise"}
\* (5) within one invocation an option moves nothing but its own destination: take the option away (for a positional or needed
\*     option: give it another value) and the two effective calls differ only at the option's destination / selected calls.
\*     (Value against value follows: both differ from the omission only there.)
Differs(e1, e2) ==
    {<<c, p>> : c \in DOMAIN e1.calls \cap DOMAIN e2.calls, p \in UNION {DOMAIN e1.calls[x] : x \in DOMAIN e1.calls}}
DiffPairs(e1, e2) == {cp \in Differs(e1, e2) : cp[2] \in DOMAIN e1.calls[cp[1]] /\ cp[2] \in DOMAIN e2.calls[cp[1]] /\ e1.calls[cp[1]][cp[2]] # e2.calls[cp[1]][cp[2]]}
DiffCalls(e1, e2) == (DOMAIN e1.calls \ DOMAIN e2.calls) \cup (DOMAIN e2.calls \ DOMAIN e1.calls)
OwnFootprint(d, e1, e2) == /\ DiffPairs(e1, e2) \subseteq (d.dest \cup d.also) \cup {cp \in Differs(e1, e2) : cp[1] \in d.sel}
                           /\ DiffCalls(e1, e2) \subseteq d.sel
OptionsIndependent ==
    (E.status = "ok" /\ Declared) =>
        \A i \in Idx(sub) : LET d == DT[sub][i] IN
            d.o \in DOMAIN asg =>
                \A alt \in (IF d.pos \/ d.need THEN {With(asg, d.o, v) : v \in ValsT[d.kind]} ELSE {Without(asg, d.o)}) :
                    LET e2 == Eff(sub, alt, InitProc) IN e2.status = "ok" => OwnFootprint(d, E, e2)
\* (6) the options that select calls
ThumbnailSelect == (E.status = "ok" /\ "--placeholder-thumbnail" \in OptNames(sub)) =>
                       /\ HasCall(E, "Builder.make_placeholder_thumbnail") = ("--placeholder-thumbnail" \in DOMAIN asg)
                       /\ HasCall(E, "Builder.make_thumbnail_from_other") = ("--placeholder-thumbnail" \notin DOMAIN asg)
PlanetProjections == {S("plate-carree-planet"), S("plate-carree-planet-zeroleft"), S("plate-carree-planet-zeroright")}
ProjectionSelect == (E.status = "ok" /\ sub = "tile-allsky") =>
                        LET p == Val(sub, asg, "--projection") IN
                        /\ Arg(E, <<"Builder.toast_base", "is_planet">>) = B(p \in PlanetProjections)
                        /\ Arg(E, <<"Builder.toast_base", "is_pano">>) = B(p = S("plate-carree-panorama"))
                        /\ E.facts["wtml"].dataset_type = (IF p \in PlanetProjections THEN S("Planet") ELSE IF p = S("plate-carree-panorama") THEN S("Panorama") ELSE S("Sky"))
\* astrometry: --avm-from before --avm before --fits-wcs before the image's own WCS before the default; exactly one source
AstrometrySelect == (E.status = "ok" /\ sub = "tile-study") =>
                        /\ Cardinality(DOMAIN E.calls \cap {"Builder.apply_avm_info", "Builder.apply_wcs_info", "Builder.default_tiled_study_astrometry"}) = 1
                        /\ ("--avm-from" \in DOMAIN asg => Arg(E, <<"AVM.from_image", "filename">>) = asg["--avm-from"])
                        /\ (("--avm" \in DOMAIN asg /\ "--avm-from" \notin DOMAIN asg) => Arg(E, <<"AVM.from_image", "filename">>) = asg["PATH"])
                        /\ ({"--avm", "--avm-from"} \cap DOMAIN asg = {} => ~HasCall(E, "AVM.from_image"))
TileOnlySelect == (E.status = "ok" /\ sub = "view") => HasCall(E, "preview_wtml") = ("--tile-only" \notin DOMAIN asg)
ExitCodeSelect == sub = "check-avm" /\ E.status = "ok" => ("--exitcode" \notin DOMAIN asg => E.exit = 0)
\* the objects are wired as the command line says: the pyramid a stage works on is the one opened on the named directory
Wiring == E.status = "ok" => \A c \in DOMAIN E.calls : \A p \in DOMAIN E.calls[c] :
              Is(E.calls[c][p], "obj") => (E.calls[c][p].obj \in DOMAIN E.calls \cup {"image", "settings"})

\* ---- statements that do NOT hold of the code as built (TLC must refute each; the counterexample is the failing command line)
\* every omitted option reaches the library as the library's own default
OmittedAlwaysLibraryDefault == E.status = "ok" => \A o \in OptNames(sub) \ DOMAIN asg : OmittedIsDefault(sub, asg, E, o)
\* every accepted option has an effect
NothingSuppressed == E.status = "ok" => \A o \in DOMAIN asg : Reaches(sub, asg, E, o)
\* a command that cannot run without an option says so cleanly
MissingNeedDiesCleanly == (Declared /\ ~Rejected(sub, asg) /\ NeedfulOmitted) => E.status = "die"
\* --crop shrinks whatever image is loaded
CropAlwaysShrinksImage == (E.status = "ok" /\ "--crop" \in DOMAIN asg /\ asg["--crop"] \notin {Ints(<<0>>)} /\ "image" \in DOMAIN E.facts /\ sub # "tile-wwtl")
                              => E.facts["image"].width.int < FileInfo(asg[IF sub = "make-thumbnail" THEN "IN-PATH" ELSE "PATH"].path).w
\* without --name a study positioned from AVM tags keeps the Title of the tags (apply_avm_info stores it, set_name("Toasty") overwrites it)
OmittedNameKeepsAvmTitle == (E.status = "ok" /\ sub = "tile-study" /\ "--name" \notin DOMAIN asg /\ HasCall(E, "Builder.apply_avm_info"))
                                => E.facts["wtml"].name = AvmTitle
\* every image format that can be tiled can be thumbnailed
StudyAlwaysTiles == (sub = "tile-study" /\ Declared /\ ~Rejected(sub, asg) /\ DOMAIN asg = {"PATH"}) => E.status = "ok"

\* ============================================================================ theorems of HistSpec
Fresh(k) == Eff(Invs[hist[k]].sub, Invs[hist[k]].asg, InitProc)
\* no option of one invocation influences a later invocation in the same process
NoCarryOver == \A k \in 1..Len(outs) : outs[k] = Fresh(k)
ProcStable == proc = InitProc
=============================================================================
