--------------------------- MODULE PublishOverlap ---------------------------
(* BEYOND THE STATED QUANTIFIER OF C18.  The property speaks of one publisher  *)
(* with crashes / failures injected; this module explores TWO publish() runs   *)
(* that overlap in time on the same approved image (an overlapping cron job,   *)
(* an operator starting a second run because the first looks hung), each a     *)
(* process of its own that may be killed.  It is checked and replayed          *)
(* separately (checks/c18.py, overlap_exploration) and labelled as such.       *)
(*                                                                             *)
(* Transcribes, per process p, PipelineManager.publish() on one image whose    *)
(* transfer list is Order (index.wtml last) and LocalPipelineIo.put_item as    *)
(* written (temporary sibling + os.replace), at the granularity at which two   *)
(* processes can interfere through the file system:                            *)
(*   Begin   os.listdir(approved) (nothing to do if the image was published    *)
(*           meanwhile), os.listdir(approved/<id>), open(<first file>, 'rb')   *)
(*   Open    put_item: os.makedirs; open(tmp_path, 'wb') - creates the         *)
(*           temporary file, or TRUNCATES the file of that name if there is one*)
(*   Write   shutil.copyfileobj: one more block of the source has reached the  *)
(*           disk through the descriptor opened by Open (only for a file       *)
(*           larger than the stream buffer: Early[f] blocks before close)      *)
(*   Close   the buffered rest is written, the file closed,                    *)
(*           os.replace(tmp_path, item) - FileNotFoundError if the name is     *)
(*           gone; then publish() goes on: open(<next file>, 'rb') -           *)
(*           FileNotFoundError if the image directory was renamed meanwhile -  *)
(*           or, after the last file, os.rename(approved/<id>, published/<id>) *)
(*   Crash   the process is killed (what it had not written is lost)           *)
(* A file is a set of blocks on an inode; a name (item or temporary) refers to *)
(* an inode; a writer holds the inode it opened, whatever happens to the name. *)
(* SharedTmp = FALSE is the code as built: the temporary name carries the      *)
(* process id, so the two processes never write to the same inode; TRUE is a   *)
(* fixed temporary name per item, for which TLC refutes the safety invariant   *)
(* (P1 half-way through X, P2 opens and thereby truncates the same inode, P1   *)
(* finishes and renames it to X, sends index.wtml, P2 is killed).              *)
EXTENDS Naturals, Sequences, FiniteSets, TLC

CONSTANTS Order,       \* transfer list of the image: sequence of file names, index.wtml last
          Index,       \* "index.wtml"
          NB,          \* file |-> number of blocks of its content
          Early,       \* file |-> number of blocks that reach the disk before close (0: everything is written at close)
          SharedTmp,   \* FALSE: temporary name per process (as built); TRUE: one temporary name per item
          MaxCrash     \* process |-> how often it may be killed (0 or 1: a process runs once)

Procs == {1, 2}
Files == {Order[i] : i \in DOMAIN Order}
MaxIno == 2 * Len(Order)
ASSUME /\ Order[Len(Order)] = Index
       /\ \A f \in Files : Early[f] <= NB[f] /\ NB[f] >= 1

VARIABLES pc,        \* pc[p] \in {"idle", "open", "write", "close", "done", "failed", "dead"}
          k,         \* k[p]: position in Order of the transfer p is at
          b,         \* b[p]: blocks of the current transfer that p has written so far
          fd,        \* fd[p]: inode p's open temporary file descriptor refers to (0: none)
          item,      \* item[f]: inode the store item <id>/<f> refers to (0: absent)
          tmp,       \* tmp[f][t]: inode the temporary name of f refers to; t = 0 the shared name, t = p the name of process p
          blocks,    \* blocks[i]: the blocks present on inode i
          nino,      \* inodes allocated so far
          loc,       \* "approved" | "published": where the image directory is
          crashes    \* crashes[p]
vars == <<pc, k, b, fd, item, tmp, blocks, nino, loc, crashes>>

T(p) == IF SharedTmp THEN 0 ELSE p
F(p) == Order[k[p]]

Init == /\ pc = [p \in Procs |-> "idle"] /\ k = [p \in Procs |-> 0] /\ b = [p \in Procs |-> 0] /\ fd = [p \in Procs |-> 0]
        /\ item = [f \in Files |-> 0] /\ tmp = [f \in Files |-> [t \in 0..2 |-> 0]]
        /\ blocks = [i \in 1..MaxIno |-> {}] /\ nino = 0 /\ loc = "approved" /\ crashes = [p \in Procs |-> 0]

Begin(p) == /\ pc[p] = "idle"
            /\ IF loc = "published" THEN pc' = [pc EXCEPT ![p] = "done"] /\ k' = k
               ELSE pc' = [pc EXCEPT ![p] = "open"] /\ k' = [k EXCEPT ![p] = 1]
            /\ UNCHANGED <<b, fd, item, tmp, blocks, nino, loc, crashes>>

Open(p) == /\ pc[p] = "open"
           /\ LET f == F(p)
                  old == tmp[f][T(p)]
              IN /\ IF old # 0
                      THEN /\ blocks' = [blocks EXCEPT ![old] = {}]             \* 'wb' truncates the existing file
                           /\ fd' = [fd EXCEPT ![p] = old] /\ UNCHANGED <<tmp, nino>>
                      ELSE /\ nino' = nino + 1
                           /\ tmp' = [tmp EXCEPT ![f][T(p)] = nino + 1]
                           /\ fd' = [fd EXCEPT ![p] = nino + 1] /\ UNCHANGED blocks
                 /\ pc' = [pc EXCEPT ![p] = IF Early[f] > 0 THEN "write" ELSE "close"]
           /\ b' = [b EXCEPT ![p] = 0]
           /\ UNCHANGED <<k, item, loc, crashes>>

Write(p) == /\ pc[p] = "write"
            /\ blocks' = [blocks EXCEPT ![fd[p]] = @ \cup {b[p] + 1}]
            /\ b' = [b EXCEPT ![p] = @ + 1]
            /\ pc' = [pc EXCEPT ![p] = IF b[p] + 1 = Early[F(p)] THEN "close" ELSE "write"]
            /\ UNCHANGED <<k, fd, item, tmp, nino, loc, crashes>>

Close(p) == /\ pc[p] = "close"
            /\ LET f == F(p)
                   flushed == [blocks EXCEPT ![fd[p]] = @ \cup ((b[p] + 1)..NB[f])]
               IN /\ blocks' = flushed
                  /\ fd' = [fd EXCEPT ![p] = 0]
                  /\ IF tmp[f][T(p)] = 0
                       THEN \* os.replace: the temporary name is gone (the other process renamed it) - put_item raises
                            /\ pc' = [pc EXCEPT ![p] = "failed"] /\ UNCHANGED <<item, tmp, loc, k>>
                       ELSE /\ item' = [item EXCEPT ![f] = tmp[f][T(p)]]
                            /\ tmp' = [tmp EXCEPT ![f][T(p)] = 0]
                            /\ IF loc = "published"
                                 THEN \* the next open(..., 'rb') / the os.rename finds the image directory gone
                                      pc' = [pc EXCEPT ![p] = "failed"] /\ UNCHANGED <<loc, k>>
                                 ELSE IF k[p] < Len(Order)
                                        THEN pc' = [pc EXCEPT ![p] = "open"] /\ k' = [k EXCEPT ![p] = @ + 1] /\ UNCHANGED loc
                                        ELSE pc' = [pc EXCEPT ![p] = "done"] /\ loc' = "published" /\ UNCHANGED k
            /\ b' = [b EXCEPT ![p] = 0]
            /\ UNCHANGED <<nino, crashes>>

Crash(p) == /\ pc[p] \in {"open", "write", "close"} /\ crashes[p] < MaxCrash[p]
            /\ pc' = [pc EXCEPT ![p] = "dead"] /\ crashes' = [crashes EXCEPT ![p] = @ + 1]
            /\ UNCHANGED <<k, b, fd, item, tmp, blocks, nino, loc>>

Step(p) == Begin(p) \/ Open(p) \/ Write(p) \/ Close(p)
Next == \E p \in Procs : Step(p) \/ Crash(p)
Spec == Init /\ [][Next]_vars /\ \A p \in Procs : WF_vars(Step(p))

\* --------------------------------------------------------------------------------------------------
ItemState(f) == IF item[f] = 0 THEN "absent" ELSE IF blocks[item[f]] = 1..NB[f] THEN "complete" ELSE "partial"
Strays == {<<f, t>> \in Files \X (0..2) : tmp[f][t] # 0}
TypeOK == /\ \A p \in Procs : pc[p] \in {"idle", "open", "write", "close", "done", "failed", "dead"}
          /\ nino <= MaxIno
          /\ \A p \in Procs : pc[p] \in {"write", "close"} => fd[p] \in 1..nino
          /\ loc \in {"approved", "published"}

Ended(p) == pc[p] \in {"done", "failed", "dead"}
Quiescent == \A p \in Procs : Ended(p)
OthersComplete == \A f \in Files \ {Index} : ItemState(f) = "complete"
AllComplete == \A f \in Files : ItemState(f) = "complete"
\* the property's safety sentences, where it speaks: when no run is in progress any more
IndexImpliesAll == ItemState(Index) # "absent" => OthersComplete
PublishedImpliesAll == loc = "published" => AllComplete
QIndexImpliesAll == Quiescent => IndexImpliesAll
QPublishedImpliesAll == Quiescent => PublishedImpliesAll
\* as built nothing is ever written to an inode a store item refers to, and a process only ever writes to an inode it created
ItemsWhole == \A f \in Files : ItemState(f) # "partial"
\* some run gets the image published unless both are killed
SomeoneCompletes == (\A p \in Procs : MaxCrash[p] = 0) => <>(loc = "published" /\ AllComplete)
=============================================================================
