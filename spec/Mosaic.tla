------------------------------- MODULE Mosaic -------------------------------
(* Tiling a collection of images that share one TAN projection and pixel grid *)
(* (toasty/multi_tan.py: MultiTanProcessor.compute_global_pixelization,       *)
(* _tile_serial, _tile_parallel, _mp_tile_worker; toasty/image.py:            *)
(* ImageDescription.ensure_negative_parity / _flip_wcs_parity (CRPIX2 <-      *)
(* height + 1 - CRPIX2), Image.flip_parity (rows reversed),                   *)
(* Image.update_into_maskable_buffer (float modes: only non-NaN source pixels *)
(* are written); toasty/pyramid.py: PyramidIO.update_image (lock, read or     *)
(* all-masked default, write; a completely masked tile is not stored),        *)
(* clean_lockfiles; wwt_data_formats ImageSet.set_position_from_wcs) on top   *)
(* of the single-image study tiling of spec/StudyTiling.tla.                  *)
(*                                                                            *)
(* Two levels of description:                                                 *)
(*  - a *decomposition* is the display-level ground truth: a W x H mosaic     *)
(*    (y grows downwards), sub-images at offsets (ox, oy) with undefined      *)
(*    (U = NaN) borders and an optional undefined hole, the reference pixel;  *)
(*  - the *files* are what the code sees: per input a stored array (rows      *)
(*    top-down or bottom-up), its shape and its CRPIX (all with the same      *)
(*    CRVAL / CD up to the parity flip).  Everything the machines below do is *)
(*    computed from the files, as the code does; the theorems compare the     *)
(*    outcome with the ground truth, which does not mention storage parities, *)
(*    input order or workers.                                                 *)
(*                                                                            *)
(* Both machines start from a decomposition, a storage parity per input and   *)
(* the parity of the tile format, and derive the files and the per-input plan  *)
(* (rectangles, reconciled array, slices) from them once.                      *)
(* SpecPaste : inputs pasted one after the other, in every order (serial      *)
(*             mode; also the reference "paste into one large image").        *)
(* SpecPar   : NWorkers workers taking the inputs from the queue, each tile   *)
(*             update split into Lock / Read / Write / Unlock, then the lock   *)
(*             file cleanup (composition with the lock of spec/TileLock.tla;  *)
(*             the queue hand-over itself is spec/WorkQueue.tla).             *)
(* RealCase  : the same operators evaluated at TS = 256 for the cases the     *)
(*             harness draws; its result is the expectation for the real code.*)
EXTENDS Integers, Sequences, FiniteSets

CONSTANTS TS,             \* tile size in pixels (256 in toasty)
          Decomps,        \* the decompositions the state machines explore
          NWorkers,       \* SpecPar: number of worker processes
          UseLock,        \* SpecPar: update_image holds the per-tile lock around read+write (the design: TRUE)
          ReleaseUnlinks  \* SpecPar: releasing removes the lock file (SoftFileLock: TRUE; a lock that leaves its file: FALSE)

ST == INSTANCE StudyTiling WITH MaxW <- 1, MaxH <- 1, MaxLen <- 1, SubMode <- "none", SubLens <- {}, c <- 0

Parities == ST!Parities                      \* "topdown" (parity sign -1) | "bottomup" (+1: FITS)
U == <<-1, -1, -1>>                          \* an undefined pixel (NaN)
Range(s) == {s[k] : k \in DOMAIN s}
SetMin(S) == CHOOSE x \in S : \A y \in S : x <= y
SetMax(S) == CHOOSE x \in S : \A y \in S : x >= y

\* ================================================================ display level (ground truth)
\* d = [W, H, r1, r2, agree, subs]; r1, r2 = 2 * CRPIX of the mosaic itself (FITS pixel coordinates are 1-based, and
\* reference pixels may sit on half pixels, so every CRPIX below is carried doubled); a sub-image
\* s = [ox, oy, w, h, bl, br, bt, bb, hx0, hx1, hy0, hy1]: offset, size, undefined border widths (left, right, top,
\* bottom) and an undefined hole [hx0, hx1) x [hy0, hy1) in its own coordinates (empty when hx0 = hx1).
DefLocal(s, x, y) == /\ x >= s.bl /\ x < s.w - s.br /\ y >= s.bt /\ y < s.h - s.bb
                     /\ ~(x >= s.hx0 /\ x < s.hx1 /\ y >= s.hy0 /\ y < s.hy1)
InSub(s, gx, gy) == gx >= s.ox /\ gx < s.ox + s.w /\ gy >= s.oy /\ gy < s.oy + s.h
DefGlobal(s, gx, gy) == InSub(s, gx, gy) /\ DefLocal(s, gx - s.ox, gy - s.oy)
\* where overlapping inputs agree the value depends on the sky position only; otherwise it names its input
Val(d, k, gx, gy) == IF d.agree THEN <<0, gx, gy>> ELSE <<k, gx, gy>>
DispPix(d, k, x, y) == LET s == d.subs[k] IN IF DefLocal(s, x, y) THEN Val(d, k, s.ox + x, s.oy + y) ELSE U
WellFormed(d) ==
    LET n == Len(d.subs) IN
    /\ n >= 1 /\ d.W >= 1 /\ d.H >= 1
    /\ \A k \in 1..n : LET s == d.subs[k] IN
          /\ s.w >= 1 /\ s.h >= 1 /\ s.ox >= 0 /\ s.oy >= 0 /\ s.ox + s.w <= d.W /\ s.oy + s.h <= d.H
          /\ s.bl >= 0 /\ s.br >= 0 /\ s.bt >= 0 /\ s.bb >= 0 /\ s.hx0 <= s.hx1 /\ s.hy0 <= s.hy1
    \* the mosaic is the bounding box of the inputs (that is how the code sizes it)
    /\ \E k \in 1..n : d.subs[k].ox = 0
    /\ \E k \in 1..n : d.subs[k].oy = 0
    /\ \E k \in 1..n : d.subs[k].ox + d.subs[k].w = d.W
    /\ \E k \in 1..n : d.subs[k].oy + d.subs[k].h = d.H

\* ================================================================ the files
\* f = [w, h, par, c1, c2, arr]: shape, storage parity, 2 * CRPIX1, 2 * CRPIX2 as written in the header,
\* arr[<<row, col>>] the stored array.  A bottom-up file stores display row y in array row h-1-y and its WCS
\* counts rows from the bottom: CRPIX2 = h + 1 - (top-down CRPIX2).
FileOf(d, k, par) ==
    LET s == d.subs[k]
        c2td == d.r2 - 2 * s.oy
    IN [w |-> s.w, h |-> s.h, par |-> par,
        c1 |-> d.r1 - 2 * s.ox,
        c2 |-> IF par = "bottomup" THEN 2 * (s.h + 1) - c2td ELSE c2td,
        arr |-> [p \in (0..(s.h - 1)) \X (0..(s.w - 1)) |->
                    DispPix(d, k, p[2], IF par = "bottomup" THEN s.h - 1 - p[1] ELSE p[1])]]
Files(d, pars) == [k \in 1..Len(d.subs) |-> FileOf(d, k, pars[k])]

\* ---------------------------------------------------------------- compute_global_pixelization
\* desc.ensure_negative_parity(): the description's WCS is flipped to top-down
TopDownC2(f) == IF f.par = "bottomup" THEN 2 * (f.h + 1) - f.c2 ELSE f.c2
\* mtdesc.crxmin .. crymax (doubled): the image's extent relative to the reference pixel, 0-based
CrXMin(f) == 0 - (f.c1 - 2)
CrXMax(f) == 2 * (f.w - 1) - (f.c1 - 2)
CrYMin(f) == 0 - (TopDownC2(f) - 2)
CrYMax(f) == 2 * (f.h - 1) - (TopDownC2(f) - 2)
GXMin(fs) == SetMin({CrXMin(fs[k]) : k \in DOMAIN fs})
GXMax(fs) == SetMax({CrXMax(fs[k]) : k \in DOMAIN fs})
GYMin(fs) == SetMin({CrYMin(fs[k]) : k \in DOMAIN fs})
GYMax(fs) == SetMax({CrYMax(fs[k]) : k \in DOMAIN fs})
GWidth(fs) == (GXMax(fs) - GXMin(fs)) \div 2 + 1
GHeight(fs) == (GYMax(fs) - GYMin(fs)) \div 2 + 1
\* desc.imin / desc.jmin: where each input lands in the global image
IMin(fs, k) == (CrXMin(fs[k]) - GXMin(fs)) \div 2
JMin(fs, k) == (CrYMin(fs[k]) - GYMin(fs)) \div 2
SameGrid(fs) == \A k \in DOMAIN fs : (CrXMin(fs[k]) - GXMin(fs)) % 2 = 0 /\ (CrYMin(fs[k]) - GYMin(fs)) % 2 = 0
GTiling(fs) == ST!Tiling(GWidth(fs), GHeight(fs))
SubT(fs, k) == ST!SubTiling(GTiling(fs), IMin(fs, k), JMin(fs, k), fs[k].w, fs[k].h)   \* imax + 1 - imin = w
NTodo(fs) == LET cnt == [k \in DOMAIN fs |-> ST!Count(SubT(fs, k))] IN ST!SumRange(cnt, 1, Len(fs))
\* the WCS of the data set: CRPIX is derived from the LAST descriptor of the loop
\* (this_crpix + 1 + (mtdesc.crxmin - global_crxmin)); CrpixFrom(fs, k) is the same expression for descriptor k
CrpixFrom(fs, k) == <<fs[k].c1 + (CrXMin(fs[k]) - GXMin(fs)), TopDownC2(fs[k]) + (CrYMin(fs[k]) - GYMin(fs))>>
GCrpix(fs) == CrpixFrom(fs, Len(fs))
\* ImageSet.set_position_from_wcs for a top-down WCS, in integers: offsets in half pixels (unit scale / 2),
\* scale in pixels (base_degrees_per_tile / scale).  refpix = CRPIX - 0.5, i.e. doubled: cr - 1.
Fields(w, h, lev, cr) ==
    IF lev > 0
    THEN [levels |-> lev, scalepix |-> TS * 2^lev,
          offx2 |-> 2 * ((w + 1) \div 2) - (cr[1] - 1), offy2 |-> (cr[2] - 1) - 2 * ((h + 1) \div 2)]
    ELSE [levels |-> 0, scalepix |-> 1, offx2 |-> cr[1] - 1, offy2 |-> 2 * h - (cr[2] - 1)]
GFields(fs) == Fields(GWidth(fs), GHeight(fs), GTiling(fs).lev, GCrpix(fs))

\* ---------------------------------------------------------------- pasting one input into the tiles
FlipRows(arr, h) == [p \in DOMAIN arr |-> arr[<<h - 1 - p[1], p[2]>>]]            \* Image.flip_parity
Reconciled(f, q) == IF f.par # q THEN FlipRows(f.arr, f.h) ELSE f.arr             \* image and tile parity agree
\* the four slices of _tile_serial / _mp_tile_worker for rectangle r (a record of ST!Rects) and tile parity q:
\* for bottom-up tiles both the image rows and the tile rows are counted from the other end
Slices(f, r, q) ==
    [ix |-> r.ix, bx |-> r.tx, w |-> r.w, h |-> r.h,
     iy |-> IF q = "bottomup" THEN f.h - (r.iy + r.h) ELSE r.iy,
     by |-> IF q = "bottomup" THEN TS - (r.ty + r.h) ELSE r.ty]
\* Image.update_into_maskable_buffer: a source pixel is written only if it is defined
UpdateInto(buf, img, s) ==
    [p \in DOMAIN buf |->
        IF p[1] >= s.by /\ p[1] < s.by + s.h /\ p[2] >= s.bx /\ p[2] < s.bx + s.w
        THEN LET v == img[<<s.iy + (p[1] - s.by), s.ix + (p[2] - s.bx)>>] IN IF v # U THEN v ELSE buf[p]
        ELSE buf[p]]
TileIdx == (0..(TS - 1)) \X (0..(TS - 1))                                          \* <<file row, column>>
Blank == [p \in TileIdx |-> U]       \* read_image(default="masked"); also how a tile that is not stored reads
TilePositions(t) == (0..(ST!NTiles(t.p2) - 1)) \X (0..(ST!NTiles(t.p2) - 1))       \* <<tx, ty>> at the deepest level
RectAt(rs, lev, p) == {j \in 1..Len(rs) : rs[j].pos = <<lev, p[1], p[2]>>}
\* what the tiling loop of one input works from: the sub-tiling's rectangles (generate_populated_positions), the
\* parity-reconciled array and the slices of every rectangle.  (Computed once per behaviour: it only depends on the
\* files and the tile format.)
Plan(fs, qq) == [k \in DOMAIN fs |->
                   LET rs == ST!Rects(SubT(fs, k))
                   IN [rs |-> rs, img |-> Reconciled(fs[k], qq), sl |-> [j \in 1..Len(rs) |-> Slices(fs[k], rs[j], qq)]]]
\* all rectangles of one input, one update_image per populated position
PasteInput(tl, pk, lev) ==
    [p \in DOMAIN tl |->
        LET hits == RectAt(pk.rs, lev, p)
        IN IF hits = {} THEN tl[p] ELSE UpdateInto(tl[p], pk.img, pk.sl[CHOOSE j \in hits : TRUE])]

\* ---------------------------------------------------------------- the reference: paste into one large image, tile that
\* pasting at display level (no files, no parities): the large image, top-down, indexed <<gx, gy>>
BlankMosaic(d) == [g \in (0..(d.W - 1)) \X (0..(d.H - 1)) |-> U]
PasteMosaic(m, d, k) ==
    [g \in DOMAIN m |-> IF DefGlobal(d.subs[k], g[1], g[2]) THEN Val(d, k, g[1], g[2]) ELSE m[g]]
\* the single-image study path of StudyTiling.tla applied to a large image m of size w x h for tile parity q:
\* Rects, RowIdx (by_idx of tile_image), TilePixel (fill_into_maskable_buffer), one write per rectangle
SingleTiles(m, w, h, q) ==
    LET t == ST!Tiling(w, h)
        rs == ST!Rects(t)
    IN [p \in TilePositions(t) |->
          LET hits == RectAt(rs, t.lev, p)
          IN IF hits = {} THEN Blank
             ELSE LET r == rs[CHOOSE j \in hits : TRUE]
                      rows == ST!RowIdx(q, r)
                  IN [e \in TileIdx |-> LET tp == ST!TilePixel(r, rows, e[1], e[2])
                                        IN IF tp = ST!Undef THEN U ELSE m[tp]]]
\* the deepest level in display orientation, as one P2 x P2 image
Display(tl, q, gx, gy) == tl[<<gx \div TS, gy \div TS>>][<<ST!FileRow(q, gy % TS), gx % TS>>]
Stored(tile) == \E e \in TileIdx : tile[e] # U            \* write_image: a completely masked tile is not written

\* ---------------------------------------------------------------- the cell table (used at TS = 256, checked at small TS)
\* all edges of sub-images, borders and holes cut the mosaic into cells on which every input is wholly defined or
\* wholly undefined; the winner of a cell is the last input in paste order that is defined there (0: nobody)
RECURSIVE SortSet(_)
SortSet(S) == IF S = {} THEN <<>> ELSE LET m == SetMin(S) IN <<m>> \o SortSet(S \ {m})
XEdges(s) == {s.ox, s.ox + s.w, s.ox + s.bl, s.ox + s.w - s.br, s.ox + s.hx0, s.ox + s.hx1}
YEdges(s) == {s.oy, s.oy + s.h, s.oy + s.bt, s.oy + s.h - s.bb, s.oy + s.hy0, s.oy + s.hy1}
Clip(S, n) == {x \in S : x > 0 /\ x < n} \cup {0, n}
XCuts(subs, w) == SortSet(Clip(UNION {XEdges(subs[k]) : k \in DOMAIN subs}, w))
YCuts(subs, h) == SortSet(Clip(UNION {YEdges(subs[k]) : k \in DOMAIN subs}, h))
Winner(subs, order, gx, gy) ==
    LET ks == {j \in DOMAIN order : DefGlobal(subs[order[j]], gx, gy)}
    IN IF ks = {} THEN 0 ELSE order[SetMax(ks)]
\* win[j][i] = winner of cell [xc[i], xc[i+1]) x [yc[j], yc[j+1]), decided at the cell's first pixel
CellTable(subs, w, h, order) ==
    LET xc == XCuts(subs, w)
        yc == YCuts(subs, h)
    IN [xc |-> xc, yc |-> yc,
        win |-> [j \in 1..(Len(yc) - 1) |-> [i \in 1..(Len(xc) - 1) |-> Winner(subs, order, xc[i], yc[j])]]]
CellOf(cuts, x) == SetMax({i \in DOMAIN cuts : cuts[i] <= x})

\* ================================================================ state machines
VARIABLES dc,        \* the decomposition (frozen)
          pars,      \* storage parity of every input file (frozen)
          q,         \* parity of the tile format (frozen): fits "bottomup", npy / png "topdown"
          plan,      \* Plan(files, q) (frozen)
          order,     \* the inputs in the order in which they were pasted (SpecPaste) / taken from the queue (SpecPar)
          tiles,     \* deepest-level tiles: <<tx, ty>> -> <<file row, column>> -> value
          mosaic,    \* SpecPaste: the large image pasted at display level
          wk,        \* SpecPar: per worker [st, k, j, buf]
          held,      \* SpecPar: positions whose lock is held
          lockfiles, \* SpecPar: positions whose .lock file exists
          cleaned    \* SpecPar: tile() has returned (clean_lockfiles ran)
vars == <<dc, pars, q, plan, order, tiles, mosaic, wk, held, lockfiles, cleaned>>
frozen == <<dc, pars, q, plan>>
N == Len(dc.subs)
Fs == Files(dc, pars)
Lev == plan[1].rs[1].pos[1]                  \* the deepest level (every rectangle of the plan carries it)
AllPasted == Len(order) = N

InitCommon == /\ dc \in Decomps
              /\ pars \in [1..Len(dc.subs) -> Parities]
              /\ q \in Parities
              /\ plan = Plan(Files(dc, pars), q)
              /\ order = <<>>
              /\ tiles = [p \in TilePositions(GTiling(Files(dc, pars))) |-> Blank]
              /\ held = {} /\ lockfiles = {} /\ cleaned = FALSE

\* ---------------------------------------------------------------- SpecPaste
InitPaste == InitCommon /\ mosaic = BlankMosaic(dc) /\ wk = <<>>
Paste(k) == /\ k \notin Range(order)
            /\ order' = Append(order, k)
            /\ tiles' = PasteInput(tiles, plan[k], Lev)
            /\ mosaic' = PasteMosaic(mosaic, dc, k)
            /\ UNCHANGED <<frozen, wk, held, lockfiles, cleaned>>
NextPaste == \E k \in 1..N : Paste(k)
SpecPaste == InitPaste /\ [][NextPaste]_vars

\* ---- theorems (property C09), invariants of SpecPaste
\* the global pixelisation recovers the ground truth from the CRPIX extrema, whatever the storage parities and
\* whichever descriptor the data set's CRPIX is taken from; the ImageSet fields are those of the large image
PlacementOK == (order = <<>>) =>          \* (a statement about the frozen part: evaluated in the initial states)
    /\ WellFormed(dc) /\ SameGrid(Fs)
    /\ GWidth(Fs) = dc.W /\ GHeight(Fs) = dc.H
    /\ \A k \in 1..N : IMin(Fs, k) = dc.subs[k].ox /\ JMin(Fs, k) = dc.subs[k].oy
    /\ \A k \in 1..N : CrpixFrom(Fs, k) = <<dc.r1, dc.r2>>
    /\ \A k \in 1..N : ST!SubTilingOK(GTiling(Fs), <<IMin(Fs, k), JMin(Fs, k)>>, SubT(Fs, k))
    /\ \A k \in 1..N : LET rs == ST!Rects(SubT(Fs, k)) IN \A p \in DOMAIN tiles : Cardinality(RectAt(rs, GTiling(Fs).lev, p)) <= 1
FieldsOK == (order = <<>>) =>
    LET t == ST!Tiling(dc.W, dc.H)
        fl == GFields(Fs)
    IN /\ fl = Fields(dc.W, dc.H, t.lev, <<dc.r1, dc.r2>>)          \* = the single-image description
       /\ fl.levels = t.lev /\ 2^fl.levels * TS = t.p2
       \* tiled: the offsets are the position of the centre of the padded square relative to the reference pixel
       /\ t.lev > 0 => /\ fl.offx2 = (t.p2 - 2 * t.x.g0) - (dc.r1 - 1)
                       /\ fl.offy2 = (dc.r2 - 1) - (t.p2 - 2 * t.y.g0)
\* "the deepest-level tiles are identical to those obtained by pasting the images into one large image and tiling
\* that" - in file orientation, after every prefix of every order, including which tiles are stored at all
TilesAreTilingOfMosaic == tiles = SingleTiles(mosaic, dc.W, dc.H, q)
\* the large image itself: every pixel shows the last pasted input that is defined there, U if none is
LastWins == \A g \in DOMAIN mosaic :
               LET k == Winner(dc.subs, order, g[1], g[2])
               IN mosaic[g] = IF k = 0 THEN U ELSE Val(dc, k, g[1], g[2])
\* "independent of the order of the inputs (where overlapping inputs agree)"
Canonical(d) == [g \in (0..(d.W - 1)) \X (0..(d.H - 1)) |->
                   IF \E k \in DOMAIN d.subs : DefGlobal(d.subs[k], g[1], g[2]) THEN <<0, g[1], g[2]>> ELSE U]
OrderIndependent == (AllPasted /\ dc.agree) => /\ mosaic = Canonical(dc)
                                                /\ tiles = SingleTiles(Canonical(dc), dc.W, dc.H, q)
\* "independent of whether the inputs are stored bottom-up or top-down": in display orientation the result is the
\* large image centred in the padded square - an expression without pars or q
ParityIndependent ==
    LET t == ST!Tiling(dc.W, dc.H) IN
    \A gx \in 0..(t.p2 - 1), gy \in 0..(t.p2 - 1) :
       Display(tiles, q, gx, gy) = IF gx >= t.x.g0 /\ gx < t.x.g0 + dc.W /\ gy >= t.y.g0 /\ gy < t.y.g0 + dc.H
                                   THEN mosaic[<<gx - t.x.g0, gy - t.y.g0>>] ELSE U
\* the cell table describes the large image (so that it may stand for it at TS = 256)
CellTableOK ==
    LET ct == CellTable(dc.subs, dc.W, dc.H, order) IN
    /\ ct.xc[1] = 0 /\ ct.xc[Len(ct.xc)] = dc.W /\ ct.yc[1] = 0 /\ ct.yc[Len(ct.yc)] = dc.H
    /\ \A i \in 1..(Len(ct.xc) - 1) : ct.xc[i] < ct.xc[i + 1]
    /\ \A j \in 1..(Len(ct.yc) - 1) : ct.yc[j] < ct.yc[j + 1]
    /\ \A g \in DOMAIN mosaic :
          LET k == ct.win[CellOf(ct.yc, g[2])][CellOf(ct.xc, g[1])]
          IN mosaic[g] = IF k = 0 THEN U ELSE Val(dc, k, g[1], g[2])
\* "undefined input pixels never overwrite defined ones" (action property): a step leaves every pixel alone that
\* the pasted input does not define, and writes the input's value where it does
NeverOverwritten ==
    [][\A k \in 1..N : (order' = Append(order, k)) =>
          LET t == ST!Tiling(dc.W, dc.H) IN
          \A gx \in 0..(t.p2 - 1), gy \in 0..(t.p2 - 1) :
             LET ix == gx - t.x.g0
                 iy == gy - t.y.g0
             IN IF DefGlobal(dc.subs[k], ix, iy)
                THEN Display(tiles', q, gx, gy) = Val(dc, k, ix, iy)
                ELSE Display(tiles', q, gx, gy) = Display(tiles, q, gx, gy)]_vars

\* ---------------------------------------------------------------- SpecPar
Workers == 1..NWorkers
Idle == [st |-> "idle", k |-> 0, j |-> 0, buf |-> Blank]
InitPar == InitCommon /\ mosaic = <<>> /\ wk = [w \in Workers |-> Idle]
WRects(w) == plan[wk[w].k].rs
WPos(w) == LET r == WRects(w)[wk[w].j] IN <<r.pos[2], r.pos[3]>>
\* queue.get: the inputs leave the queue in collection order, to whichever worker asks
Take(w) == /\ wk[w].st = "idle" /\ Len(order) < N
           /\ order' = Append(order, Len(order) + 1)
           /\ wk' = [wk EXCEPT ![w] = [st |-> "lock", k |-> Len(order) + 1, j |-> 1, buf |-> Blank]]
           /\ UNCHANGED <<frozen, tiles, mosaic, held, lockfiles, cleaned>>
\* SoftFileLock(p + ".lock").__enter__: create the lock file exclusively
Lock(w) == /\ wk[w].st = "lock"
           /\ UseLock => WPos(w) \notin held
           /\ held' = IF UseLock THEN held \cup {WPos(w)} ELSE held
           /\ lockfiles' = IF UseLock THEN lockfiles \cup {WPos(w)} ELSE lockfiles
           /\ wk' = [wk EXCEPT ![w].st = "read"]
           /\ UNCHANGED <<frozen, order, tiles, mosaic, cleaned>>
Read(w) == /\ wk[w].st = "read"
           /\ wk' = [wk EXCEPT ![w].st = "write", ![w].buf = tiles[WPos(w)]]
           /\ UNCHANGED <<frozen, order, tiles, mosaic, held, lockfiles, cleaned>>
Write(w) == /\ wk[w].st = "write"
            /\ LET pk == plan[wk[w].k]
                   new == UpdateInto(wk[w].buf, pk.img, pk.sl[wk[w].j])
               IN tiles' = [tiles EXCEPT ![WPos(w)] = new]
            /\ wk' = [wk EXCEPT ![w].st = "unlock"]
            /\ UNCHANGED <<frozen, order, mosaic, held, lockfiles, cleaned>>
Unlock(w) == /\ wk[w].st = "unlock"
             /\ held' = held \ {WPos(w)}
             /\ lockfiles' = IF ReleaseUnlinks THEN lockfiles \ {WPos(w)} ELSE lockfiles
             /\ wk' = [wk EXCEPT ![w] = IF wk[w].j < Len(WRects(w)) THEN [@ EXCEPT !.st = "lock", !.j = @ + 1] ELSE Idle]
             /\ UNCHANGED <<frozen, order, tiles, mosaic, cleaned>>
\* the workers have been joined; pio.clean_lockfiles(level) unlinks the lock file of every position of the level
Finish == /\ AllPasted /\ ~cleaned /\ \A w \in Workers : wk[w].st = "idle"
          /\ cleaned' = TRUE /\ lockfiles' = {}
          /\ UNCHANGED <<frozen, order, tiles, mosaic, wk, held>>
NextPar == Finish \/ \E w \in Workers : Take(w) \/ Lock(w) \/ Read(w) \/ Write(w) \/ Unlock(w)
SpecPar == InitPar /\ [][NextPar]_vars /\ WF_vars(NextPar)

\* ---- theorems, invariants of SpecPar
Busy(w) == wk[w].st \in {"read", "write", "unlock"}
Mutex == UseLock => \A w1, w2 \in Workers : (w1 # w2 /\ Busy(w1) /\ Busy(w2)) => WPos(w1) # WPos(w2)
\* "independent of the number of worker processes": no contribution is lost and nothing undefined is invented -
\* every pixel ends up defined iff some input defines it, with the value of one of them ...
NoContributionLost ==
    cleaned => LET t == ST!Tiling(dc.W, dc.H) IN
               \A gx \in 0..(t.p2 - 1), gy \in 0..(t.p2 - 1) :
                  LET ix == gx - t.x.g0
                      iy == gy - t.y.g0
                      ks == {k \in 1..N : DefGlobal(dc.subs[k], ix, iy)}
                  IN IF ks = {} THEN Display(tiles, q, gx, gy) = U
                     ELSE \E k \in ks : Display(tiles, q, gx, gy) = Val(dc, k, ix, iy)
\* ... hence, where overlapping inputs agree, the tiles are those of the serial runs (OrderIndependent of SpecPaste)
ParallelEqualsSerial == (cleaned /\ dc.agree) => tiles = SingleTiles(Canonical(dc), dc.W, dc.H, q)
\* "no lock files remain afterwards"
NoLocksRemain == cleaned => lockfiles = {} /\ held = {}
LocksOnlyWhileRunning == (ReleaseUnlinks /\ UseLock) => lockfiles = held
Returns == <>cleaned

\* ================================================================ TS = 256: the expectation for one real case
\* rc = [files |-> sequence of [w, h, par, c1, c2] in collection order,
\*       defs  |-> sequence of [bl, br, bt, bb, hx0, hx1, hy0, hy1] (display orientation)]
SegT(a) == LET s == ST!AxisSegs(a) IN [k \in 1..Len(s) |-> <<s[k].tile, s[k].toff, s[k].ioff, s[k].len>>]
\* per y segment: the first and last file row of a tile of parity par that receive the segment's image rows (in image order)
FileRows(par, a) == LET s == ST!AxisSegs(a)
                    IN [k \in 1..Len(s) |-> LET rows == ST!RowIdx(par, [ty |-> s[k].toff, h |-> s[k].len])
                                            IN <<rows[1], rows[Len(rows)]>>]
RealSubs(rc) == [k \in DOMAIN rc.files |->
                   LET f == rc.files[k]
                       e == rc.defs[k]
                   IN [ox |-> IMin(rc.files, k), oy |-> JMin(rc.files, k), w |-> f.w, h |-> f.h,
                       bl |-> e.bl, br |-> e.br, bt |-> e.bt, bb |-> e.bb,
                       hx0 |-> e.hx0, hx1 |-> e.hx1, hy0 |-> e.hy0, hy1 |-> e.hy1]]
RealCase(rc) ==
    LET fs == rc.files
        t == GTiling(fs)
        n == Len(fs)
    IN [w |-> GWidth(fs), h |-> GHeight(fs), p2 |-> t.p2, lev |-> t.lev, gx0 |-> t.x.g0, gy0 |-> t.y.g0,
        crpix |-> GCrpix(fs), fields |-> GFields(fs), ntodo |-> NTodo(fs),
        ins |-> [k \in 1..n |-> [imin |-> IMin(fs, k), jmin |-> JMin(fs, k),
                                 xs |-> SegT(SubT(fs, k).x), ys |-> SegT(SubT(fs, k).y),
                                 bu |-> FileRows("bottomup", SubT(fs, k).y), td |-> FileRows("topdown", SubT(fs, k).y)]],
        full |-> [xs |-> SegT(t.x), ys |-> SegT(t.y), bu |-> FileRows("bottomup", t.y), td |-> FileRows("topdown", t.y)],
        cells |-> CellTable(RealSubs(rc), GWidth(fs), GHeight(fs), [k \in 1..n |-> k])]
\* the theorems that can be evaluated at TS = 256, for exactly the drawn case
RealCaseOK(rc) ==
    LET fs == rc.files
        t == GTiling(fs)
    IN /\ SameGrid(fs)
       /\ WellFormed([W |-> GWidth(fs), H |-> GHeight(fs), subs |-> RealSubs(rc)])
       /\ \A k \in DOMAIN fs : CrpixFrom(fs, k) = GCrpix(fs)
       /\ ST!P2Minimal(GWidth(fs), GHeight(fs)) /\ ST!Centred(t.p2, GWidth(fs)) /\ ST!Centred(t.p2, GHeight(fs))
       /\ ST!IntervalPartitionOK(t) /\ ST!AxisRowsOK(t.y)
       /\ \A k \in DOMAIN fs : LET s == SubT(fs, k) IN
             /\ ST!SubTilingOK(t, <<IMin(fs, k), JMin(fs, k)>>, s)
             /\ ST!SegsOK(s.x) /\ ST!SegsOK(s.y) /\ ST!AxisRowsOK(s.y) /\ ST!IntervalPartitionOK(s)
       /\ LET fl == GFields(fs) IN
             t.lev > 0 => /\ fl.offx2 = (t.p2 - 2 * t.x.g0) - (GCrpix(fs)[1] - 1)
                          /\ fl.offy2 = (GCrpix(fs)[2] - 1) - (t.p2 - 2 * t.y.g0)

\* a do-nothing behaviour for the constant-evaluation runs
IdleInit == /\ dc = 0 /\ pars = 0 /\ q = 0 /\ plan = 0 /\ order = 0 /\ tiles = 0 /\ mosaic = 0 /\ wk = 0 /\ held = 0
            /\ lockfiles = 0 /\ cleaned = 0
IdleNext == UNCHANGED vars
=============================================================================
