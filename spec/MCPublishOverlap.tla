------------------------- MODULE MCPublishOverlap -------------------------
(* Hand-runnable model of spec/PublishOverlap.tla (two overlapping publish() runs - beyond C18's stated quantifier). *)
(*   tlc -config MCPublishOverlap.cfg        MCPublishOverlap.tla   temporary name per process (as built): holds   *)
(*   tlc -config MCPublishOverlap_shared.cfg MCPublishOverlap.tla   one temporary name per item: QIndexImpliesAll  *)
(*                                                                  is REFUTED                                     *)
(* checks/c18.py generates the same module for the transfer list of each tier and adds ACTION_CONSTRAINT EmitEdge. *)
EXTENDS PublishOverlap, Json

MCOrder == <<"data.png", "index.wtml">>
\* data.png is larger than the stream buffer (two blocks, both on the disk before close); the others are written at close
MCNB == [f \in Files |-> IF f = "data.png" THEN 2 ELSE 1]
MCEarly == [f \in Files |-> IF f = "data.png" THEN 2 ELSE 0]
MCMaxCrash == <<1, 1>>

St == [pc |-> pc, k |-> k, b |-> b, fd |-> fd, item |-> item, tmp |-> tmp, blocks |-> blocks, nino |-> nino, loc |-> loc,
       crashes |-> crashes, items |-> [f \in Files |-> ItemState(f)], strays |-> Cardinality(Strays),
       iia |-> IndexImpliesAll, pia |-> PublishedImpliesAll, quiescent |-> Quiescent]
Acts == {ap \in {"Begin", "Open", "Write", "Close", "Crash"} \X Procs :
           LET a == ap[1]  p == ap[2]
           IN CASE a = "Begin" -> Begin(p) [] a = "Open" -> Open(p) [] a = "Write" -> Write(p)
                [] a = "Close" -> Close(p) [] a = "Crash" -> Crash(p)}
EmitEdge == PrintT(<<"E", ToJson([s |-> St, t |-> St', acts |-> Acts])>>)
=============================================================================
