SPECIFICATION SpaceSpec
CONSTANTS
 Level = 0
 ForeignUpTo = 1
 Leaky = FALSE
 MaxInv = 0
 Invs <- MCNoInvs
INVARIANT TypeOK
INVARIANT EffIsEff
INVARIANT UndeclaredRejected
INVARIANT BadTokenRejected
INVARIANT BadValueDoesNoWork
INVARIANT OnlyOkFinishes
INVARIANT AcceptedReaches
INVARIANT ExactlyOneParameter
INVARIANT OmittedAsBuilt
INVARIANT NeededOptionStops
INVARIANT OptionsIndependent
INVARIANT ThumbnailSelect
INVARIANT ProjectionSelect
INVARIANT AstrometrySelect
INVARIANT TileOnlySelect
INVARIANT ExitCodeSelect
INVARIANT Wiring
INVARIANT Witness
CHECK_DEADLOCK FALSE
