------------------------- MODULE MCImageLoaderHistory -------------------------
(* Wrapper of ImageLoaderHistory.tla for checks/g05.py: the command lines,   *)
(* the caller's PIL objects, the files, and the emitter.                     *)
EXTENDS ImageLoaderHistory, ImageFamilies, Json

Args(hascrop, tok, b2t, cp, psd) == [hascrop |-> hascrop, tok |-> tok, b2t |-> b2t, cp |-> cp, psd |-> psd]
MCArgSets == << Args(FALSE, <<>>, FALSE, "srgb", -1),              \* (no options)
                Args(TRUE, <<1>>, FALSE, "srgb", -1),              \* --crop 1
                Args(FALSE, <<>>, TRUE, "srgb", -1),               \* --black-to-transparent
                Args(FALSE, <<>>, FALSE, "none", -1),              \* --colorspace-processing none
                Args(TRUE, <<0, 1>>, TRUE, "srgb", 2),             \* --crop 0,1 --black-to-transparent --psd-single-layer 2
                Args(TRUE, <<1, 0, 0, 2>>, FALSE, "none", -1),     \* --crop 1,0,0,2 --colorspace-processing none
                Args(TRUE, <<2>>, FALSE, "srgb", -1),              \* --crop 2 (fits no image offered: the load raises)
                Args(TRUE, <<1, 2, 3>>, TRUE, "srgb", -1),         \* --crop 1,2,3 (refused)
                Args(TRUE, <<-1>>, FALSE, "srgb", -1),             \* --crop=-1 (refused)
                Args(TRUE, <<Junk>>, FALSE, "none", -1) >>         \* --crop x (refused)
MCPilSeeds == << PilOf(MkFile("png", "RGBA", 4, 3, 0, "none")),
                 PilOf(MkFile("png", "RGB", 4, 3, 0, "odd")),
                 PilOf(MkFile("png", "RGBA", 2, 2, 3, "odd")),
                 PilOf(MkFile("png", "LA", 4, 3, 0, "none")) >>
MCPathFiles == << MkFile("png", "RGB", 4, 3, 0, "odd"), MkFile("png", "RGBA", 4, 3, 0, "none"), MkFile("npy", "F32", 4, 3, 0, "none") >>

\* a smaller alphabet for a deeper exhaustive search (thorough tier): the options that work in place, the objects they work on
MCArgSetsSmall == << MCArgSets[1], MCArgSets[3], MCArgSets[4], MCArgSets[2] >>
MCPilSeedsSmall == << MCPilSeeds[3], MCPilSeeds[2] >>
MCPathFilesSmall == << MCPathFiles[1] >>

ASSUME CropFormsParsed

Record == [hist |-> hist, act |-> last.act, res |-> last.res, before |-> last.before, pils |-> pils,
           eff |-> [k \in Slots |-> [live |-> ld[k].live, crop |-> Eff(k, "crop"), b2t |-> Eff(k, "b2t"), cp |-> Eff(k, "cp"), psd |-> Eff(k, "psd")]],
           maxpix |-> maxpix, cls |-> cls,
           \* the inputs (emitted with the initial state): the command lines and the files
           args |-> IF hist = <<>> THEN ArgSets ELSE <<>>, files |-> IF hist = <<>> THEN PathFiles ELSE <<>>,
           ideal |-> [ArgumentNeverMutated |-> ArgumentNeverMutated, RepeatedPilLoadStable |-> RepeatedPilLoadStable, NoLeakThroughArgument |-> NoLeakThroughArgument]]
Emit == PrintT(<<"H", ToJson(Record)>>)
=============================================================================
