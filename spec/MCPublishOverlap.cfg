SPECIFICATION Spec
CONSTANTS
 Order <- MCOrder
 Index = "index.wtml"
 NB <- MCNB
 Early <- MCEarly
 MaxCrash <- MCMaxCrash
 SharedTmp = FALSE
INVARIANT TypeOK
INVARIANT QIndexImpliesAll
INVARIANT QPublishedImpliesAll
INVARIANT ItemsWhole
CHECK_DEADLOCK FALSE
