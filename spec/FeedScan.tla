------------------------------ MODULE FeedScan ------------------------------
(* G08 (DESIGN.md section 7) - how DjangoplicityImageSource.query_candidates finds the items in the HTML of  *)
(* one archive page (toasty/pipeline/djangoplicity.py: the loop over text_stream).  A constant module: the   *)
(* operators, the theorem for well-formed pages and the table of every small page layout.                    *)
(*                                                                                                           *)
(* A page is a sequence of line classes:                                                                     *)
(*   "O" any other line, "V" a line containing `var images = [`, "I" an item line, "C" a line containing `];` *)
(* The first line is read and dropped unconditionally (`text_stream.readline()`); then: nothing collected    *)
(* yet -> wait for V; collecting -> C ends it, any other line is collected.  Result: "nodata" (the Exception  *)
(* 'no "var images" data found'), "open" (V seen, no C: the YAML text has no closing bracket, the parser      *)
(* raises), or "items" with the positions of the collected lines.                                            *)
(*                                                                                                           *)
(* AS-BUILT DEVIATION  FirstLineDropped: a `var images = [` on the very first line of the body is not seen    *)
(* (ideal ScanFindsAnyBlock, refuted).                                                                        *)
EXTENDS Integers, Sequences, TLC

RECURSIVE ScanFrom(_, _, _, _)
ScanFrom(lines, k, collecting, acc) ==
    IF k > Len(lines) THEN (IF collecting THEN [res |-> "open", items |-> acc] ELSE [res |-> "nodata", items |-> <<>>])
    ELSE IF ~collecting THEN ScanFrom(lines, k + 1, lines[k] = "V", acc)
    ELSE IF lines[k] = "C" THEN [res |-> "items", items |-> acc]
    ELSE ScanFrom(lines, k + 1, TRUE, Append(acc, k))
Scan(lines) == ScanFrom(lines, 2, FALSE, <<>>)

\* the layout the code is written for: some other first line, one V, items only, one C, anything but V / C around it
WellFormed(lines) == \E a \in 2..Len(lines), b \in 2..Len(lines) :
                        /\ a < b /\ lines[a] = "V" /\ lines[b] = "C"
                        /\ \A k \in 1..(a - 1) : lines[k] = "O"
                        /\ \A k \in (a + 1)..(b - 1) : lines[k] = "I"
                        /\ \A k \in (b + 1)..Len(lines) : lines[k] = "O"
ItemsOf(lines) == SelectSeq([k \in 1..Len(lines) |-> k], LAMBDA k : lines[k] = "I")
\* theorem: a well-formed page yields exactly its items, in order
ScanWellFormed(lines) == WellFormed(lines) => Scan(lines) = [res |-> "items", items |-> ItemsOf(lines)]
\* ideal (refuted: FirstLineDropped)
ScanFindsAnyBlock(lines) == (\E k \in DOMAIN lines : lines[k] = "V") => Scan(lines).res # "nodata"

\* ---- every page of up to maxlines lines
LineClasses == {"O", "V", "I", "C"}
Pages(maxlines) == UNION {[1..len -> LineClasses] : len \in 1..maxlines}
\* junk between V and C would be handed to the YAML parser: such pages are outside the model
FirstV(lines) == IF \E k \in 2..Len(lines) : lines[k] = "V"
                 THEN CHOOSE k \in 2..Len(lines) : lines[k] = "V" /\ \A j \in 2..(k - 1) : lines[j] # "V"
                 ELSE 0
InModel(lines) == LET a == FirstV(lines) IN
                  a = 0 \/ \A b \in (a + 1)..Len(lines) : (\A k \in (a + 1)..b : lines[k] # "C") => lines[b] = "I"
ScanTheorems(maxlines) == \A lines \in Pages(maxlines) : ScanWellFormed(lines)
ScanTable(maxlines) == {[lines |-> lines, scan |-> Scan(lines), wf |-> WellFormed(lines), ideal |-> ScanFindsAnyBlock(lines)]
                           : lines \in {l \in Pages(maxlines) : InModel(l)}}
=============================================================================
