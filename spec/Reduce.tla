------------------------------ MODULE Reduce ------------------------------
(* The pyramid generator and the reduction iterator of toasty/pyramid.py       *)
(* (Pyramid._generator, PyramidReductionIterator, count_leaf_tiles,            *)
(* count_live_tiles, count_operations, _walk_serial, _visit_leaves_serial).    *)
(*                                                                             *)
(* One behaviour = one reduction over one pyramid configuration:               *)
(*   kind  "generic" | "toast"   (toast = TOAST pyramid, filtered by `acc`)    *)
(*   acc   the set of positions the user's tile filter accepts                 *)
(*   apex  the sub-pyramid apex (Root = none)                                  *)
(* Actions are the two public steps of the iterator: NextItem (__next__) and   *)
(* SetData (set_data); the `assert`s in the code are the variable `ok`.        *)
EXTENDS Quadtree, TLC
CONSTANTS Depth, Kinds, AcceptSets, Apexes

Full == UpTo(Depth)
\* _make_position_filter(apex) conjoined with the user filter (subpyramid() in TOAST mode)
Passes(A, a, p) == (p[1] > a[1] \/ OnChain(p, a)) /\ p \in A

\* toast.generate_tiles_filtered(bottom_only = False): level-1 tiles filtered there,
\* deeper ones inside _postfix_corner; children in _div4 order; tile yielded after its subtree
RECURSIVE PostF(_, _, _)
PostF(A, a, p) ==
    IF p[1] > Depth \/ ~Passes(A, a, p) THEN <<>>
    ELSE PostF(A, a, Kid(p, 0)) \o PostF(A, a, Kid(p, 1)) \o PostF(A, a, Kid(p, 2)) \o PostF(A, a, Kid(p, 3)) \o <<p>>
GenToast(A, a) ==
    (IF Depth >= 1 THEN PostF(A, a, Kid(Root, 0)) \o PostF(A, a, Kid(Root, 1)) \o PostF(A, a, Kid(Root, 2)) \o PostF(A, a, Kid(Root, 3))
     ELSE <<>>) \o <<Root>>

\* generic pyramids: generate_pos(depth - apex.n) shifted under the apex, then the apex's ancestors up to level 0
RECURSIVE AncChain(_)
AncChain(p) == IF p[1] = 0 THEN <<>> ELSE <<Parent(p)>> \o AncChain(Parent(p))
Shift(q, a) == <<q[1] + a[1], q[2] + a[2] * Pow2(q[1]), q[3] + a[3] * Pow2(q[1])>>
GenGeneric(a) ==
    IF a[1] = 0 THEN GeneratePos(Depth)
    ELSE LET g == GeneratePos(Depth - a[1]) IN [i \in 1..Len(g) |-> Shift(g[i], a)] \o AncChain(a)

Gen(k, A, a) == IF k = "generic" THEN GenGeneric(a) ELSE GenToast(A, a)

\* ---- ground truth: what "reachable", "live", "leaf", "operation" mean (docstrings of count_live_tiles etc.) ----
RECURSIVE ReachAt(_, _, _)
ReachAt(A, a, n) == IF n = 0 THEN {Root}
                    ELSE LET prev == ReachAt(A, a, n - 1) IN {k \in Level(n) : Passes(A, a, k) /\ Parent(k) \in prev}
RECURSIVE LiveAt(_, _, _)
LiveAt(A, a, n) == IF n = Depth THEN {p \in ReachAt(A, a, n) : InSub(p, a)}
                   ELSE LET deeper == LiveAt(A, a, n + 1) IN {p \in ReachAt(A, a, n) : InSub(p, a) /\ Kids(p) \cap deeper # {}}
LiveSet(k, A, a) == IF k = "generic" THEN {p \in Full : InSub(p, a)}
                    ELSE UNION {LiveAt(A, a, n) : n \in 0..Depth}
LeavesOf(L) == {p \in L : p[1] = Depth}
OpsOf(L) == {p \in L : p[1] < Depth}

VARIABLES kind, acc, apex, live,      \* frozen configuration (live is precomputed ground truth)
          gen,                        \* what the generator has still to yield; <<>> also models `_generator = None`
          levels,                     \* the _levels stack, shallow to deep: [x, y, slots]
          recent, phase,              \* _most_recent_pos; "next" | "set" | "done"
          ok,                         \* FALSE as soon as one of the iterator's assert statements would fail
          out,                        \* history: what __next__ returned plus the value the client computed
          final                       \* result()
vars == <<kind, acc, apex, live, gen, levels, recent, phase, ok, out, final>>

\* the client's per-tile value: all four reductions of the code at once
\*   lf = count_leaf_tiles, lv = count_live_tiles, op = count_operations (with its liveness flag), wk = walk's flag
Dflt == [lf |-> 0, lv |-> 0, op |-> 0, lo |-> FALSE, wk |-> FALSE]
Sum(ch, f) == f[ch[1]] + f[ch[2]] + f[ch[3]] + f[ch[4]]
Value(isLeaf, ch) ==
    IF isLeaf THEN [lf |-> 1, lv |-> 1, op |-> 0, lo |-> TRUE, wk |-> TRUE]
    ELSE LET c == ch[1].lf + ch[2].lf + ch[3].lf + ch[4].lf
             v == ch[1].lv + ch[2].lv + ch[3].lv + ch[4].lv
             o == ch[1].op + ch[2].op + ch[3].op + ch[4].op
             l == \E i \in 1..4 : ch[i].lo
             w == \E i \in 1..4 : ch[i].wk
         IN [lf |-> c, lv |-> IF v > 0 THEN v + 1 ELSE 0, op |-> IF l THEN o + 1 ELSE o, lo |-> l, wk |-> w]

Entry(p) == [x |-> p[2], y |-> p[3], slots |-> <<Dflt, Dflt, Dflt, Dflt>>]
RECURSIVE NewLevels(_, _)
NewLevels(p, nBefore) == IF p[1] < nBefore THEN <<>> ELSE NewLevels(Parent(p), nBefore) \o <<Entry(p)>>

Init == /\ kind \in Kinds /\ apex \in Apexes
        /\ acc \in (IF kind = "generic" THEN {Full} ELSE AcceptSets)
        /\ gen = Gen(kind, acc, apex)
        /\ live = LiveSet(kind, acc, apex)
        /\ levels = <<Entry(Root)>> /\ recent = Root /\ phase = "next" /\ ok = TRUE
        /\ out = <<>> /\ final = Dflt

NextItem ==
    /\ phase = "next" /\ gen # <<>>
    /\ LET p == Head(gen) IN
       IF p[1] < apex[1]
       THEN \* filter disjoint from the sub-pyramid: a parent of the apex shows up; stop
            /\ gen' = <<>> /\ phase' = "done" /\ UNCHANGED <<levels, recent, ok, out, final>>
       ELSE LET lv == IF p[1] < Len(levels) THEN levels ELSE levels \o NewLevels(p, Len(levels))
                top == lv[Len(lv)]
                good == Len(lv) = p[1] + 1 /\ top.x = p[2] /\ top.y = p[3]
                isLeaf == p[1] = Depth
            IN /\ ok' = (ok /\ good)
               /\ out' = Append(out, [pos |-> p, leaf |-> isLeaf, val |-> Value(isLeaf, top.slots), nlev |-> Len(lv) - 1])
               /\ levels' = SubSeq(lv, 1, Len(lv) - 1)
               /\ recent' = p /\ gen' = Tail(gen) /\ phase' = "set" /\ UNCHANGED final
    /\ UNCHANGED <<kind, acc, apex, live>>

SetData ==
    /\ phase = "set"
    /\ LET p == recent
           v == out[Len(out)].val IN
       IF p = apex
       THEN /\ gen' = <<>> /\ final' = v /\ phase' = "done" /\ UNCHANGED <<levels, ok>>
       ELSE LET pp == Parent(p) IN
            IF pp[1] + 1 > Len(levels)
            THEN /\ ok' = FALSE /\ phase' = "next" /\ UNCHANGED <<levels, gen, final>>   \* IndexError in the code
            ELSE /\ ok' = (ok /\ levels[pp[1] + 1].x = pp[2] /\ levels[pp[1] + 1].y = pp[3])
                 /\ levels' = [levels EXCEPT ![pp[1] + 1].slots[Slot(p) + 1] = v]
                 /\ phase' = "next" /\ UNCHANGED <<gen, final>>
    /\ UNCHANGED <<kind, acc, apex, live, recent, out>>

Exhaust == /\ phase = "next" /\ gen = <<>> /\ phase' = "done"
           /\ UNCHANGED <<kind, acc, apex, live, gen, levels, recent, ok, out, final>>

Next == NextItem \/ SetData \/ Exhaust
Spec == Init /\ [][Next]_vars

\* ---------------------------------------------------------------- properties
AssertsHold == ok
Visited == {out[i].pos : i \in DOMAIN out}
OpsSeen == {out[i].pos : i \in {j \in DOMAIN out : ~out[j].leaf /\ out[j].val.wk}}
LeavesSeen == {out[i].pos : i \in {j \in DOMAIN out : out[j].leaf}}
Unfiltered == kind = "generic" \/ (acc = Full /\ apex = Root)

DoneOK == phase = "done" =>
    \* what walk(parallel=1) and visit_leaves(parallel=1) call back for
    /\ OpsSeen = OpsOf(live)
    /\ LeavesSeen = LeavesOf(live)
    \* every in-scope position exactly once, children before parents
    /\ \A i, j \in DOMAIN out : i < j => out[i].pos # out[j].pos
    /\ \A j \in DOMAIN out : \A k \in Kids(out[j].pos) : k \in Visited => \E i \in 1..(j - 1) : out[i].pos = k
    /\ \A j \in DOMAIN out : InSub(out[j].pos, apex)
    \* the three counts
    /\ final.lf = Cardinality(LeavesOf(live))
    /\ final.lv = Cardinality(live)
    /\ final.op = Cardinality(OpsOf(live))
    /\ final.op + final.lf = final.lv
    /\ final.wk = (live # {})
    \* closed forms (what the code returns without iterating when no filter is set)
    /\ Unfiltered => /\ final.lf = TilesAtDepth(Depth - apex[1])
                     /\ final.lv = Depth2Tiles(Depth - apex[1])
                     /\ final.op = (IF apex[1] = Depth THEN 0 ELSE Depth2Tiles(Depth - (apex[1] + 1)))
    \* sub-pyramid result = the part of the full result that lies below the apex
    /\ live = {p \in LiveSet(kind, acc, Root) : InSub(p, apex)}

\* the stack never holds more than one entry per level above the current position
StackShape == \A i \in DOMAIN levels : i <= Depth + 1
=============================================================================
