------------------------------ MODULE SampleOps ------------------------------
(* Constant-level operators of TOAST sampling (toast.ToastSampler.visit_callback), shared by SampleLayer.tla (one      *)
(* sampling run, passes one after another) and SampleJobs.tla (separately started updating runs on one pyramid):       *)
(* leaves of the filtered pyramid, a tile's own pixel grid, masked identity samplers, row order of the stored file,    *)
(* update = merge, and HOW A SAMPLER REPRESENTS WHAT IT RETURNS.                                                       *)
EXTENDS ToastLattice
CONSTANTS Depth

U == <<>>                                  \* the undefined pixel
NPix == 2^K
\* reachable leaves of the filtered pyramid (as in Reduce.tla, no sub-pyramid)
RECURSIVE ReachAt(_, _)
ReachAt(A, n) == IF n = 0 THEN {<<0, 0, 0>>}
                 ELSE LET prev == ReachAt(A, n - 1) IN
                      {p \in Positions(n) : p \in A /\ <<n - 1, p[2] \div 2, p[3] \div 2>> \in prev}
Leaves(A) == ReachAt(A, Depth)
FullFilter == UNION {Positions(n) : n \in 1..Depth}
LeavesOf(A) == IF Depth = 0 THEN {<<0, 0, 0>>} ELSE Leaves(A)

\* the tile's own pixel grid in display orientation: [r][c] = centre of tile (n+K, 2^K x + c, 2^K y + r)
DisplayGrid(p) == IF p[1] = 0
                  THEN [r \in 0..(NPix - 1) |-> [c \in 0..(NPix - 1) |-> Centre(K, c, r).pt]]     \* the whole-sphere tile
                  ELSE LET t == TileAt(p)
                           g == Sub(t.c[1], t.c[2], t.c[3], t.c[4], t.inc, K)
                       IN [r \in 0..(NPix - 1) |-> [c \in 0..(NPix - 1) |-> g[<<r, c>>].pt]]
InRegion(pt, reg) == reg[1] <= pt[1] /\ pt[1] < reg[2]          \* a band of lattice columns; <<0, S + 1>> = everything
Sampled(p, reg) == LET g == DisplayGrid(p) IN
                   [r \in 0..(NPix - 1) |-> [c \in 0..(NPix - 1) |-> IF InRegion(g[r][c], reg) THEN g[r][c] ELSE U]]
\* rows as stored in the file
Stored(grid, bu) == [fr \in 0..(NPix - 1) |-> grid[IF bu THEN NPix - 1 - fr ELSE fr]]
AllU(grid) == \A r \in 0..(NPix - 1) : \A c \in 0..(NPix - 1) : grid[r][c] = U
Merge(old, new) == [r \in 0..(NPix - 1) |-> [c \in 0..(NPix - 1) |-> IF new[r][c] = U THEN old[r][c] ELSE new[r][c]]]
Blank == [r \in 0..(NPix - 1) |-> [c \in 0..(NPix - 1) |-> U]]

\* ---- how the sampler represents what it returns ------------------------------------------------------------------
\* The property speaks of the sampler's VALUE at a pixel.  The array that carries the values is the sampler's business:
\*   order    "native" | "swapped"   the bytes of every element in the machine's order or reversed (what astropy hands
\*                                   out for FITS data, '>f4' / '>f8' / '>i2', and what WcsSampler passes through)
\*   layout   "C" | "F" | "rev"      element (r, c) at memory offset r * NPix + c (row-major), c * NPix + r (Fortran
\*                                   order, a transposed view) or counted from the far end (negative strides)
\*   writable                        whether the library may write into the array (memory-mapped / broadcast / cached
\*                                   results are read-only): no effect on the values
\* An element is the sequence of its "bytes" (here: the point's coordinates; U is the empty word); reversing the bytes
\* is an involution that changes every point off the diagonal, so a reader that ignores `order` (relabels the dtype
\* instead of converting) or `layout` (walks the memory row-major whatever the strides) is visible.
Orders == {"native", "swapped"}
Layouts == {"C", "F", "rev"}
AllReprs == [order : Orders, layout : Layouts, writable : BOOLEAN]
NativeRepr == [order |-> "native", layout |-> "C", writable |-> TRUE]
SwapBytes(w) == [k \in 1..Len(w) |-> w[Len(w) + 1 - k]]
Encode(v, order) == IF order = "native" THEN v ELSE SwapBytes(v)
Decode(w, order) == IF order = "native" THEN w ELSE SwapBytes(w)
OffsetOf(layout, r, c) == CASE layout = "C" -> r * NPix + c
                            [] layout = "F" -> c * NPix + r
                            [] layout = "rev" -> (NPix - 1 - r) * NPix + (NPix - 1 - c)
PixIdx == (0..(NPix - 1)) \X (0..(NPix - 1))
\* the array object a sampler with representation rep returns for the values `grid`
ArrayOf(grid, rep) ==
    [order |-> rep.order, layout |-> rep.layout, writable |-> rep.writable,
     mem |-> [o \in 0..(NPix * NPix - 1) |->
                 LET rc == CHOOSE q \in PixIdx : OffsetOf(rep.layout, q[1], q[2]) = o IN Encode(grid[rc[1]][rc[2]], rep.order)]]
\* the values an array object stands for (numpy indexing + dtype-aware element access)
ValuesOf(a) == [r \in 0..(NPix - 1) |-> [c \in 0..(NPix - 1) |-> Decode(a.mem[OffsetOf(a.layout, r, c)], a.order)]]
\* what visit_callback works with: the VALUES of whatever the sampler returned
Returned(p, reg, rep) == ValuesOf(ArrayOf(Sampled(p, reg), rep))
\* theorem: the representation is invisible in the values (checked by TLC over every tile, band and representation) ...
T_ReprInvisible(regs) == \A p \in AllPos \cup {<<0, 0, 0>>} : p[1] + K + 1 <= R => \A reg \in regs : \A rep \in AllReprs :
                            Returned(p, reg, rep) = Sampled(p, reg)
\* ... and the model is not vacuous: a reader that relabels the element type of a byte-swapped array, or walks a
\* non-row-major array row-major, gets other values for some tile
Relabelled(a) == [r \in 0..(NPix - 1) |-> [c \in 0..(NPix - 1) |-> a.mem[OffsetOf(a.layout, r, c)]]]
RowMajorRead(a) == [r \in 0..(NPix - 1) |-> [c \in 0..(NPix - 1) |-> Decode(a.mem[r * NPix + c], a.order)]]
T_ReprSensitive == \E p \in AllPos \cup {<<0, 0, 0>>} : p[1] + K + 1 <= R /\
                      LET g == Sampled(p, <<0, S + 1>>) IN
                      /\ Relabelled(ArrayOf(g, [NativeRepr EXCEPT !.order = "swapped"])) # g
                      /\ RowMajorRead(ArrayOf(g, [NativeRepr EXCEPT !.layout = "F"])) # g
                      /\ RowMajorRead(ArrayOf(g, [NativeRepr EXCEPT !.layout = "rev"])) # g
=============================================================================
