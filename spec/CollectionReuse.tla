---------------------------- MODULE CollectionReuse ----------------------------
(* The caller's argument objects are the caller's.                             *)
(*                                                                             *)
(* collection.load / toasty.tile_fits / SimpleFitsCollection / a               *)
(* CollectionLoader instance receive `hdu_index` and `wcs_key` as Python       *)
(* objects (an int, or a list the caller built).  A caller uses the SAME list  *)
(* or the same loader for a second collection over other files - the per-file  *)
(* entries may be negative ("the last HDU of each file"), so what they         *)
(* designate depends on the file they are applied to.  The property's "a list  *)
(* supplies the index or key for the file at the same list position" holds for *)
(* the second collection exactly as for a fresh caller: the first collection   *)
(* leaves no trace in the arguments (ArgumentsUntouched) and the second one    *)
(* has no memory of the first (SecondHasNoMemory).                             *)
(*                                                                             *)
(* lay, lay2   the two path lists (same length, different files somewhere)     *)
(* hs, ks      the selection as the caller wrote it (hs.v may hold negatives)  *)
(* arg         what the caller's hdu_index list holds NOW                      *)
(* Enumerate   one complete pass of _scan_hdus over a collection built from    *)
(*             the argument objects; it READS arg.  The design that stores the *)
(*             resolved index back into the list (WriteBack = TRUE, "so that   *)
(*             later passes need not count the HDUs again") is refuted by TLC. *)
EXTENDS Collection

CONSTANT WriteBack
VARIABLES lay2, arg, stage, outA, outB
rvars == <<lay, hs, ks, dout, iout, lay2, arg, stage, outA, outB>>

Asked == IF hs.form = "each" THEN [hs EXCEPT !.v = arg] ELSE hs          \* the selection object as the code finds it
Pass(paths) == [i \in DOMAIN paths |-> ScanOne(paths, Asked, ks, i)]
After(paths) == IF WriteBack /\ hs.form = "each"
                THEN [i \in DOMAIN arg |-> Resolve(arg[i], FileSeq[paths[i]])]
                ELSE arg

RInit == /\ lay \in UNION {[1..n -> DOMAIN FileSeq] : n \in 1..MaxFiles}
         /\ lay2 \in [1..Len(lay) -> DOMAIN FileSeq] /\ lay2 # lay
         /\ \A i \in DOMAIN lay : HasImage(FileSeq[lay[i]]) /\ HasImage(FileSeq[lay2[i]])
         /\ hs \in HduSpecs(Files(lay))
         /\ ks \in KeySpecs(Files(lay), hs)
         /\ InScope(Files(lay2), hs, ks)
         /\ arg = hs.v /\ stage = 0 /\ outA = <<>> /\ outB = <<>> /\ dout = <<>> /\ iout = <<>>

First == /\ stage = 0 /\ outA' = Pass(LoadPaths(lay)) /\ arg' = After(lay) /\ stage' = 1
         /\ UNCHANGED <<lay, hs, ks, dout, iout, lay2, outB>>
Second == /\ stage = 1 /\ outB' = Pass(LoadPaths(lay2)) /\ arg' = After(lay2) /\ stage' = 2
          /\ UNCHANGED <<lay, hs, ks, dout, iout, lay2, outA>>
RNext == First \/ Second
RSpec == RInit /\ [][RNext]_rvars
RDone == stage = 2

\* using the arguments does not change them
ArgumentsUntouched == arg = hs.v
\* the first collection is what was asked for ...
FirstIsWhatWasAsked == stage >= 1 => \A i \in DOMAIN lay : outA[i] = ScanOne(lay, hs, ks, i)
\* ... and the second one is what a caller who never built the first would get: every entry applied to ITS file
SecondHasNoMemory == stage = 2 => \A i \in DOMAIN lay2 :
    /\ outB[i] = ScanOne(lay2, hs, ks, i)
    /\ outB[i].hdu = SelectHdu(hs, i, FileSeq[lay2[i]]) /\ outB[i].key = SelectKey(ks, i)
\* the same written entry may designate different HDUs in the two collections (that is what makes the reuse observable)
Differs == \E i \in DOMAIN lay : ScanOne(lay, hs, ks, i).hdu # ScanOne(lay2, hs, ks, i).hdu
=============================================================================
