----------------------------- MODULE ImageBounds -----------------------------
(* The sampling sets of WcsSampler._image_bounds (toasty/samplers.py), per image axis, in exact arithmetic.   *)
(*                                                                                                        *)
(*   coarse_idx  = linspace(0.5, L + 0.5, 32)              Coarse(L, i) = 1/2 + i*L/31,  i = 0..31            *)
(*   around the coarse extreme e:  lo = max(e-1, 0), hi = min(e+1, 31)                                       *)
(*   n = max(ceil(coarse[hi] - coarse[lo]), MinSamples)                                                      *)
(*   refined_idx = linspace(coarse[lo], coarse[hi], n)    (numpy: n = 1 yields the LOW end only)             *)
(*                                                                                                        *)
(* refine_lat uses one such set per axis (a 2-D grid around the coarse latitude extreme); refine_lon walks   *)
(* the image border (4*31 + 1 coarse points, Perim) and refines along the edge the extreme lies on (Seg).    *)
(* The bounds returned are the extreme world coordinates over the refined samples, so the bounds reach the   *)
(* image edge only if the refined set does: that is what the theorems say.                                  *)
(*                                                                                                        *)
(* MinSamples = 2 is the design the theorems hold for (and the repaired code); MinSamples = 1 is the code    *)
(* as first written: TLC refutes ReachesImageEdge for it (axes of <= 31 px at e = 31).                       *)
(* Rationals are pairs <<num, den>>, den > 0, not reduced.                                                  *)
EXTENDS Integers, Sequences, TLC

CONSTANTS Lengths,        \* set of axis lengths L >= 1 (pixels)
          MinSamples      \* 1 (as first written) or 2
NC == 32                  \* N_COARSE
NM == NC - 1

\* ------------------------------------------------------------------ rationals
Leq(a, b) == a[1] * b[2] <= b[1] * a[2]
Eq(a, b)  == a[1] * b[2] = b[1] * a[2]
Sub(a, b) == <<a[1] * b[2] - b[1] * a[2], a[2] * b[2]>>
CeilDiv(a, b) == (a + b - 1) \div b          \* a >= 0, b > 0
Max2(a, b) == IF a > b THEN a ELSE b
Min2(a, b) == IF a < b THEN a ELSE b

\* ------------------------------------------------------------------ one axis
Coarse(L, i) == <<NM + 2 * i * L, 2 * NM>>                 \* 1/2 + i*L/31
Lo(e) == Max2(e - 1, 0)
Hi(e) == Min2(e + 1, NM)
\* length of the refined interval in pixels: (hi - lo) * L / 31
DNum(L, e) == (Hi(e) - Lo(e)) * L
N(L, e) == Max2(CeilDiv(DNum(L, e), NM), MinSamples)
\* the k-th refined sample, k = 1..n, over the common denominator RefDen
RefDen(L, e) == 2 * NM * Max2(N(L, e) - 1, 1)
RefNum(L, e, k) ==
    IF N(L, e) = 1 THEN NM + 2 * Lo(e) * L                 \* linspace(a, b, 1) = [a]
    ELSE (NM + 2 * Lo(e) * L) * (N(L, e) - 1) + 2 * (k - 1) * DNum(L, e)
Refined(L, e) == [k \in 1..N(L, e) |-> <<RefNum(L, e, k), RefDen(L, e)>>]

\* ------------------------------------------------------------------ the border walk of refine_lon
\* coarse_edge_lons[pe], pe = 0..4*31: which coarse grid point <<i1, i2>> (axis-1 index, axis-2 index) it is
Perim(pe) ==
    IF pe < NM THEN <<pe, 0>>                               \* coarse_lon[:nm, 0]       "top"
    ELSE IF pe < 2 * NM THEN <<NM, pe - NM>>                \* coarse_lon[nm, :nm]      "right"
    ELSE IF pe < 3 * NM THEN <<NM - (pe - 2 * NM), NM>>     \* coarse_lon[-1:0:-1, nm]  "bottom", backwards
    ELSE <<0, NM - (pe - 3 * NM)>>                          \* coarse_lon[0, -1::-1]    "left", backwards, closes the loop
\* the segment refined for an extreme at pe: [ax |-> axis that varies, rel |-> coarse index refined around,
\*                                           fix |-> coarse index of the other axis that is held]
Seg(pe) ==
    IF pe < NM THEN [ax |-> 1, rel |-> pe, fix |-> 0]
    ELSE IF pe < 2 * NM THEN [ax |-> 2, rel |-> pe - NM, fix |-> NM]
    ELSE IF pe < 3 * NM THEN [ax |-> 1, rel |-> 3 * NM - (1 + pe), fix |-> NM]
    ELSE [ax |-> 2, rel |-> 4 * NM - pe, fix |-> 0]

\* ------------------------------------------------------------------ state space
\* q = <<"axis", L, e>>  or  <<"walk", pe, 0>>
VARIABLE q
Init == (\E L \in Lengths : q = <<"axis", L, 0>>) \/ q = <<"walk", 0, 0>>
Next == \/ q[1] = "axis" /\ q[3] < NM /\ q' = <<"axis", q[2], q[3] + 1>>      \* the extreme one coarse cell further
        \/ q[1] = "walk" /\ q[2] < 4 * NM /\ q' = <<"walk", q[2] + 1, 0>>     \* one step along the border
Spec == Init /\ [][Next]_q

\* ------------------------------------------------------------------ theorems
OnAxis(P(_, _)) == q[1] = "axis" => P(q[2], q[3])
OnWalk(P(_))    == q[1] = "walk" => P(q[2])

\* the coarse grid spans the image edge to edge and increases
CoarseSpansImageP(L, e) ==
    /\ Eq(Coarse(L, 0), <<1, 2>>) /\ Eq(Coarse(L, NM), <<2 * L + 1, 2>>)
    /\ e < NM => ~Leq(Coarse(L, e + 1), Coarse(L, e))
CoarseSpansImage == OnAxis(CoarseSpansImageP)
\* L is the length of the DATA array's axis - the image the sampler reads (WcsSampler.sampler() accepts exactly the
\* array indices 0..L-1, i.e. the 1-based pixel centres 1..L) - whatever grid size the WCS object may remember.
\* The coarse grid then covers every pixel the sampler can return, edge to edge:
CoversEveryArrayPixelP(L, e) ==
    \A p \in 1..L : Leq(Coarse(L, 0), <<2 * p - 1, 2>>) /\ Leq(<<2 * p + 1, 2>>, Coarse(L, NM))
CoversEveryArrayPixel == (q[1] = "axis" /\ q[3] = 0) => CoversEveryArrayPixelP(q[2], 0)

\* the refined set contains both ends of the refined interval
EndsIncludedP(L, e) ==
    LET r == Refined(L, e) IN Eq(r[1], Coarse(L, Lo(e))) /\ Eq(r[N(L, e)], Coarse(L, Hi(e)))
EndsIncluded == OnAxis(EndsIncludedP)

\* consequently: an extreme on the image border is refined up to the very edge of the image, and the coarse
\* extreme itself is never outside the refined interval
ReachesImageEdgeP(L, e) ==
    LET r == Refined(L, e)
    IN /\ e = 0  => \E k \in 1..N(L, e) : Eq(r[k], <<1, 2>>)
       /\ e = NM => \E k \in 1..N(L, e) : Eq(r[k], <<2 * L + 1, 2>>)
       /\ Leq(r[1], Coarse(L, e)) /\ Leq(Coarse(L, e), r[N(L, e)])
ReachesImageEdge == OnAxis(ReachesImageEdgeP)

\* spacing: the samples are equally spaced, increasing, and no point of the interval is further than one pixel
\* from a sample: gap = d/(n-1) <= n/(n-1) <= 2 px, and gap <= 1 px whenever the interval is at most 1 px long.
\* (n = ceil(d) equally spaced samples over a length d are d/(n-1) > 1 px apart: "gaps <= 1 px" is NOT what
\* the code provides; the bound below is.)
SpacingP(L, e) ==
    LET r == Refined(L, e)  n == N(L, e)
    IN n >= 2 =>
        /\ \A k \in 1..(n - 1) : r[k + 1][1] - r[k][1] = 2 * DNum(L, e)          \* over RefDen: equal steps of d/(n-1)
        /\ DNum(L, e) <= n * NM                                                   \* d <= n, i.e. d/(n-1) <= n/(n-1)
        /\ DNum(L, e) <= 2 * NM * (n - 1)                                         \* gap <= 2 px
        /\ DNum(L, e) <= NM => DNum(L, e) <= NM * (n - 1)                         \* d <= 1 => gap <= 1 px
Spacing == OnAxis(SpacingP)

\* the border walk visits border points only, moves one coarse cell at a time and closes; the refined segment
\* of a border extreme lies on the same edge (held coordinate = the point's) and contains the point
OnBorder(p) == p[1] \in {0, NM} \/ p[2] \in {0, NM}
Adjacent(p, r) == (p[1] = r[1] /\ (p[2] - r[2]) \in {-1, 1}) \/ (p[2] = r[2] /\ (p[1] - r[1]) \in {-1, 1})
WalkOKP(pe) ==
    LET p == Perim(pe)  s == Seg(pe)
        along == IF s.ax = 1 THEN p[1] ELSE p[2]
        held  == IF s.ax = 1 THEN p[2] ELSE p[1]
    IN /\ OnBorder(p)
       /\ pe < 4 * NM => Adjacent(p, Perim(pe + 1))
       /\ Perim(0) = Perim(4 * NM)
       /\ held = s.fix
       /\ Lo(s.rel) <= along /\ along <= Hi(s.rel)
WalkOK == OnWalk(WalkOKP)
\* NOT a theorem of the code as written (kept as a definition, reported by the harness as an observation):
\* on the "bottom" edge the segment is centred one coarse cell before the extreme (rel = 3*nm - (1 + e) while the
\* point is 3*nm - e), so the extreme sits at the end of its refined interval instead of the middle.
WalkCentredP(pe) == LET p == Perim(pe)  s == Seg(pe) IN s.rel = (IF s.ax = 1 THEN p[1] ELSE p[2])
WalkCentred == OnWalk(WalkCentredP)
=============================================================================
