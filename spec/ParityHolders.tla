---------------------------- MODULE ParityHolders ----------------------------
(* One astropy WCS object held by several owners (property C16, toasty/image.py: Image.flip_parity,       *)
(* ImageDescription.flip_parity, ensure_negative_parity of both, _flip_wcs_parity).                      *)
(*                                                                                                        *)
(* Parity.tla is the machine of ONE object (and of two objects over one pixel buffer, each with its own  *)
(* WCS).  Here the WCS side is shared: N holders (Image / PIL-backed Image / ImageDescription, all of one  *)
(* size) plus the CALLER (slot 0: the client keeps its own WCS object and goes on using it) each refer to *)
(* a WCS CELL - what astropy keeps in the Wcsprm behind `WCS.wcs`: CD / PC / CDELT / CRPIX.  Two slots    *)
(* refer to the same cell when they were given the same WCS object or a `WCS.copy()` of it (a shallow     *)
(* copy: a new Python object around the same Wcsprm); `deepcopy()`, `sub()`, `.celestial` and a WCS built *)
(* from a header have a cell of their own.  orig.share says which slot starts on which cell.              *)
(*                                                                                                        *)
(* The parity operations are Parity's (INSTANCEd: FlipWcs, Flip, Ensure, Sign, World, Edited).  What this *)
(* module adds is WHERE the result is stored: _flip_wcs_parity returns a NEW WCS object (WCS(header)),    *)
(* so a flipped holder moves to a fresh cell and the cell it came from is not written - every other       *)
(* holder of that cell, and the caller, keep the picture they had (Bystanders: "moves no pixel on the     *)
(* sky" for the images that were not flipped).  An in-place edit of a WCS object by the client (EditH,    *)
(* Parity's EditWcs) is the one thing that does write a cell: it is seen by exactly the slots that refer  *)
(* to that cell at that moment (EditScope) - a holder flipped earlier has left it.                        *)
(*                                                                                                        *)
(* Every sequence of MaxHist calls is a behaviour of its own (hist, trace) and is handed to the harness,  *)
(* which replays it on real objects built from w, w.copy(), w.deepcopy(), w.sub(), w.celestial.           *)
EXTENDS Integers, Sequences, FiniteSets, TLC

CONSTANTS Configs,    \* set of <<kinds, share>>: kinds = <<kind of holder 1, ..., kind of holder N>> ("image" / "pil" / "desc"),
                      \*   share = <<cell of the caller, cell of holder 1, ..., cell of holder N>> (cells numbered 1..K)
          Widths, Heights, Headers, RefX, RefY,        \* as in Parity
          Edits,      \* subset of {"cdsign", "cdelt1", "rowswap"}
          EditVia,    \* through which slots' WCS objects the client makes in-place edits (0 = its own object)
          MaxHist
VARIABLES orig,       \* the case
          cells,      \* sequence of [cd, p]: the WCS cells that exist (a flip allocates one)
          ref,        \* ref[s + 1] = the cell slot s refers to (slot 0 = the caller, slots 1..N = the holders)
          data,       \* data[s + 1] = [rows, pil] of slot s (the caller has none)
          base,       \* base[s + 1] = the reference picture of slot s: its start, or its state after the last edit it saw
          hist, trace

vars == <<orig, cells, ref, data, base, hist, trace>>

P == INSTANCE Parity WITH Kinds <- {}, Widths <- {}, Heights <- {}, Headers <- {}, RefX <- {}, RefY <- {}, RecY <- {},
                          Peers <- {}, Edits <- {}, MaxHist <- 0, orig <- 0, cur <- 0, base <- 0, peer <- 0, buf <- 0,
                          hist <- 0, trace <- 0

N == Len(orig.kinds)
Holders == 1..N
Slots == 0..N
NCells(c) == Cardinality({c.share[i] : i \in DOMAIN c.share})

\* the object a client sees through slot s: the cell's WCS and the slot's own pixel rows (Parity's object record)
ObjOf(cs, rf, dt, s) == [cd |-> cs[rf[s + 1]].cd, p |-> cs[rf[s + 1]].p, rows |-> dt[s + 1].rows, pil |-> dt[s + 1].pil]
Obj(s) == ObjOf(cells, ref, data, s)
ObjN(s) == ObjOf(cells', ref', data', s)
HasData(s) == s # 0 /\ orig.kinds[s] # "desc"

Cases == {[kinds |-> cf[1], share |-> cf[2], w |-> w, h |-> h, cdelt |-> hd[1], pc |-> hd[2], p |-> <<rx, ry[1] + ry[2] * h>>] :
             cf \in Configs, w \in Widths, h \in Heights, hd \in Headers, rx \in RefX, ry \in RefY}

StartData(kind, h) == LET id == [i \in 1..h |-> i - 1] IN
                      [rows |-> IF kind = "image" THEN id ELSE <<>>, pil |-> IF kind = "pil" THEN id ELSE <<>>]

Init == /\ orig \in Cases
        /\ cells = [g \in 1..NCells(orig) |-> [cd |-> P!CDof(orig.cdelt, orig.pc), p |-> orig.p]]
        /\ ref = orig.share
        /\ data = [s \in 1..(Len(orig.kinds) + 1) |-> IF s = 1 THEN [rows |-> <<>>, pil |-> <<>>] ELSE StartData(orig.kinds[s - 1], orig.h)]
        /\ base = [s \in 1..(Len(orig.kinds) + 1) |-> ObjOf(cells, ref, data, s - 1)]
        /\ hist = <<>> /\ trace = <<>>

Record(entry) ==
    /\ Len(hist) < MaxHist
    /\ hist' = Append(hist, entry)
    /\ trace' = Append(trace, [snaps |-> [s \in 1..(N + 1) |-> P!Snapshot(ObjN(s - 1))],
                               worlds |-> [s \in 1..(N + 1) |-> P!WorldTableH(ObjN(s - 1), orig.w, orig.h)],
                               reset |-> {s \in Slots : base'[s + 1] # base[s + 1]}])

\* holder i is flipped: the reflected WCS is a NEW object; the cell it referred to is left as it was
FlipSlot(i) == LET f == P!Flip(Obj(i), orig.h) IN
               /\ cells' = Append(cells, [cd |-> f.cd, p |-> f.p])
               /\ ref' = [ref EXCEPT ![i + 1] = Len(cells) + 1]
               /\ data' = [data EXCEPT ![i + 1] = [rows |-> f.rows, pil |-> f.pil]]
               /\ UNCHANGED <<orig, base>>
FlipH(i) == FlipSlot(i) /\ Record([op |-> "flip", on |-> i])
EnsureH(i) == /\ IF P!Sign(Obj(i).cd) = 1 THEN FlipSlot(i) ELSE UNCHANGED <<orig, cells, ref, data, base>>
              /\ Record([op |-> "ensure", on |-> i])
\* the client edits, in place, the WCS object it reaches through slot k: every slot on that cell now is a different picture
EditH(k, e) == /\ cells' = [cells EXCEPT ![ref[k + 1]].cd = P!Edited(@, e)]
               /\ UNCHANGED <<orig, ref, data>>
               /\ base' = [s \in 1..(N + 1) |-> IF ref[s] = ref[k + 1] THEN ObjOf(cells', ref, data, s - 1) ELSE base[s]]
               /\ Record([op |-> e, on |-> k])
Next == \/ \E i \in Holders : FlipH(i) \/ EnsureH(i)
        \/ \E k \in EditVia \cap Slots, e \in Edits : EditH(k, e)
Spec == Init /\ [][Next]_vars

IsOp(name, i) == hist' = Append(hist, [op |-> name, on |-> i])

\* ------------------------------------------------------------------ the sentences of the property, for every holder
Pixels == (0..(orig.w - 1)) \X (0..(orig.h - 1))
PixelsAndRing == ((0 - 1)..orig.w) \X ((0 - 1)..orig.h)
\* "moves no pixel on the sky" (Parity!SkyUnchanged, for an object o and its reference picture b)
SkyOK(o, b, hasData) ==
    IF hasData
    THEN \A q \in Pixels : P!World(o.cd, o.p, q[1], q[2])
                             = P!World(b.cd, b.p, q[1], P!PosIn(P!AsArray(b), P!AsArray(o)[q[2] + 1]) - 1)
    ELSE \/ o = b
         \/ \A q \in PixelsAndRing : P!World(o.cd, o.p, q[1], q[2]) = P!World(b.cd, b.p, q[1], orig.h - 1 - q[2])
HoldersSkyUnchanged == \A i \in Holders : SkyOK(Obj(i), base[i + 1], HasData(i))
\* the caller's own WCS object is what the caller last made it
CallerUnmoved == Obj(0) = base[1]
HoldersViewsAgree == \A i \in Holders : P!AsArray(Obj(i)) = P!AsPil(Obj(i))
\* the sign of every holder is tied to the orientation of ITS rows (nobody's sign changes because somebody else was flipped)
HoldersSignTracksRows ==
    \A i \in Holders : LET o == Obj(i)  b == base[i + 1] IN
        /\ (P!View(o) = P!View(b)) => P!Sign(o.cd) = P!Sign(b.cd)
        /\ (P!View(o) # P!View(b)) => P!Sign(o.cd) = 0 - P!Sign(b.cd)
\* a flip / ensure of holder i changes nothing that any OTHER slot shows: not its WCS, not its rows, not its sign
Bystanders ==
    [][\A i \in Holders : (IsOp("flip", i) \/ IsOp("ensure", i)) =>
          \A s \in Slots \ {i} : /\ ObjN(s) = Obj(s)
                                  /\ P!WorldTableH(ObjN(s), orig.w, orig.h) = P!WorldTableH(Obj(s), orig.w, orig.h) ]_vars
\* ... and does to holder i itself what the property says
NamedOK ==
    [][\A i \in Holders :
          /\ IsOp("flip", i) =>
                /\ P!Sign(ObjN(i).cd) = 0 - P!Sign(Obj(i).cd)
                /\ P!AsArray(ObjN(i)) = P!Reverse(P!AsArray(Obj(i))) /\ P!AsPil(ObjN(i)) = P!Reverse(P!AsPil(Obj(i)))
                /\ \A q \in PixelsAndRing : P!World(Obj(i).cd, Obj(i).p, q[1], q[2]) = P!World(ObjN(i).cd, ObjN(i).p, q[1], orig.h - 1 - q[2])
          /\ IsOp("ensure", i) =>
                /\ P!Sign(ObjN(i).cd) = -1
                /\ (P!Sign(Obj(i).cd) = -1 => ObjN(i) = Obj(i))
                /\ P!Ensure(ObjN(i), orig.h) = ObjN(i) ]_vars
EnsureAlwaysNegativeH == \A n \in 1..Len(hist) : hist[n].op = "ensure" => trace[n].snaps[hist[n].on + 1].sign = -1
\* a flipped holder shares its WCS with nobody afterwards
Detached == [][\A i \in Holders : IsOp("flip", i) => \A s \in Slots \ {i} : ref'[s + 1] # ref'[i + 1]]_vars
\* an in-place edit is seen by exactly the slots on the edited cell: their matrix is the edited one (parity negated, rows and
\* CRPIX as they were); everybody else is untouched
EditScope ==
    [][\A k \in EditVia \cap Slots, e \in Edits : IsOp(e, k) =>
          \A s \in Slots :
             IF ref[s + 1] = ref[k + 1]
             THEN /\ ObjN(s) = [Obj(s) EXCEPT !.cd = P!Edited(@, e)]
                  /\ P!Sign(ObjN(s).cd) = 0 - P!Sign(Obj(s).cd)
                  /\ base'[s + 1] = ObjN(s)
             ELSE ObjN(s) = Obj(s) /\ base'[s + 1] = base[s + 1] ]_vars
WellFormedH == /\ \A s \in Slots : P!Det(Obj(s).cd) # 0
               /\ \A s \in Slots : ref[s + 1] \in 1..Len(cells)
               /\ {orig.share[i] : i \in DOMAIN orig.share} = 1..NCells(orig)

\* ------------------------------------------------------------------ what the harness gets for every complete history
StartObj(c, s) == LET d == IF s = 0 THEN [rows |-> <<>>, pil |-> <<>>] ELSE StartData(c.kinds[s], c.h) IN
                  [cd |-> P!CDof(c.cdelt, c.pc), p |-> c.p, rows |-> d.rows, pil |-> d.pil]
HoldersReport == [orig |-> orig,
                  start |-> [s \in 1..(N + 1) |-> P!Snapshot(StartObj(orig, s - 1))],
                  world |-> P!WorldTableH(StartObj(orig, 0), orig.w, orig.h),
                  hist |-> hist, trace |-> trace]
=============================================================================
