----------------------------- MODULE LeafHistory -----------------------------
(* Histories on ONE Pyramid object before a leaf visit (toasty/pyramid.py: Pyramid.count_leaf_tiles,               *)
(* count_live_tiles, count_operations, visit_leaves serial / parallel, subpyramid, and the `depth` attribute,      *)
(* which "may be changed").  The object's configuration is (kind, user filter, depth, apex); counting and          *)
(* visiting do not change it, subpyramid(apex) (legal once) and an assignment to `depth` do.                        *)
(*                                                                                                                 *)
(* C03: the items a visit hands out are the leaf tiles of the pyramid AS IT IS NOW - those that pass the tile       *)
(* filter and lie in the selected sub-pyramid - whatever was counted or visited on the same object before.         *)
(* `hist` records, after every step, the leaf set of the current configuration (Reduce.tla's ground truth,          *)
(* instantiated at the current depth); the harness replays the history on one real object and compares what         *)
(* every visit delivers.                                                                                           *)
EXTENDS Quadtree, TLC
CONSTANTS HKinds,           \* subset of {"generic", "toast"}
          HAccepts,         \* sequence of accept sets (user filters; positions down to the largest depth)
          HDepths,          \* the depths the object may have
          HApexes,          \* the sub-pyramid apexes that may be selected
          HLen              \* number of steps of a history

\* Reduce.tla at depth d (only its constant-level operators are used: the state variables are bound to dummies)
R(d) == INSTANCE Reduce WITH Depth <- d, Kinds <- {}, AcceptSets <- {}, Apexes <- {},
            kind <- "", acc <- {}, apex <- Root, live <- {}, gen <- <<>>, levels <- <<>>, recent <- Root,
            phase <- "", ok <- TRUE, out <- <<>>, final <- 0
\* (Depth is a CONSTANT of Reduce, so the instance parameter must be constant-level: the leaf sets of every configuration a
\* history can reach are tabulated once - TLC evaluates a constant definition a single time)
Configs == {c \in HKinds \X (DOMAIN HAccepts) \X HDepths \X (HApexes \cup {Root}) : c[4][1] <= c[3] /\ (c[1] = "generic" => c[2] = 1)}
LeafTable == [c \in Configs |-> R(c[3])!LeavesOf(R(c[3])!LiveSet(c[1], HAccepts[c[2]], c[4]))]
\* the property's own sentence: leaf tiles that pass the tile filter (a filtered descent reaches a tile only through
\* accepted ancestors) and lie in the selected sub-pyramid
LeafSentence(k, A, d, a) == {p \in Level(d) : InSub(p, a) /\ (k = "toast" => \A n \in 1..d : Anc(p, n) \in A)}

VARIABLES kind, ai, depth, apex, hist,
          d0,               \* the depth the object was created with (frozen)
          tab               \* LeafTable, computed once in the initial state (frozen)
hvars == <<kind, ai, depth, apex, hist, d0, tab>>
Acc == HAccepts[ai]
LeavesNow(d, a) == tab[<<kind, ai, d, a>>]
Observations == {"count_leaf", "count_live", "count_ops", "visit_serial", "visit_parallel"}
Visits == {"visit_serial", "visit_parallel"}
Step(op, arg, d, a) == [op |-> op, arg |-> arg, depth |-> d, apex |-> a, leaves |-> LeavesNow(d, a)]

HInit == /\ kind \in HKinds /\ ai \in (IF kind = "generic" THEN {1} ELSE DOMAIN HAccepts)
         /\ depth \in HDepths /\ apex = Root /\ hist = <<>> /\ d0 = depth /\ tab = LeafTable
Observe(o) == /\ hist' = Append(hist, Step(o, <<>>, depth, apex)) /\ UNCHANGED <<kind, ai, depth, apex, d0, tab>>
\* subpyramid(a): "not legal to call more than once"; "the depth of apex may not be larger than the pyramid's total depth"
Narrow(a) == /\ apex = Root /\ a # Root /\ a[1] <= depth
             /\ apex' = a /\ hist' = Append(hist, Step("subpyramid", a, depth, a)) /\ UNCHANGED <<kind, ai, depth, d0, tab>>
SetDepth(d) == /\ d # depth /\ d >= apex[1]
               /\ depth' = d /\ hist' = Append(hist, Step("set_depth", <<d>>, d, apex)) /\ UNCHANGED <<kind, ai, apex, d0, tab>>
HNext == /\ Len(hist) < HLen
         /\ \/ \E o \in Observations : Observe(o)
            \/ \E a \in HApexes : Narrow(a)
            \/ \E d \in HDepths : SetDepth(d)
HSpec == HInit /\ [][HNext]_hvars

\* ------------------------------------------------------------------ properties
\* Reduce's reachability / liveness definition of "leaf" is the property's sentence, for every configuration a history can reach
SentenceAgrees == \A c \in Configs : LeafTable[c] = LeafSentence(c[1], HAccepts[c[2]], c[3], c[4])
\* selecting a sub-pyramid restricts the leaf set to the apex's descendants and does nothing else
NarrowRestricts == \A c \in Configs : LeafTable[c] = {p \in LeafTable[<<c[1], c[2], c[3], Root>>] : InSub(p, c[4])}
ASSUME SentenceAgrees /\ NarrowRestricts
\* what a step records is a function of the configuration at that step alone - not of what was observed earlier
HistoryFree == \A i \in DOMAIN hist : hist[i].leaves = LeafSentence(kind, Acc, hist[i].depth, hist[i].apex)
\* observations leave the configuration alone
ObservationsPure == [][\A o \in Observations : Observe(o) => UNCHANGED <<depth, apex>>]_hvars
Complete == Len(hist) = HLen /\ hist[HLen].op \in Visits
=============================================================================
