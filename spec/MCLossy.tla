------------------------------ MODULE MCLossy ------------------------------
(* Lossy tile formats (jpg), code -> spec: the children of a parent AS STORED   *)
(* (decoded from the files the cascade left on disk) are handed to TLC, which    *)
(* evaluates the property's sentence on them - display mosaic with the real      *)
(* tile edge N, child (2x+i, 2y+j) = slot 2j+i in quadrant (row j, column i), a   *)
(* missing child undefined (stored as 0), 2x2 block reduction with TileMerge's    *)
(* colour rule - and returns, for every requested output pixel, the interval      *)
(* <<floor, ceiling>> of the exact mean per channel.  The harness re-encodes the   *)
(* tile built from these values with the stored file's own quantisation tables    *)
(* and compares with the stored parent (checks/c02.py, the lossy stage).              *)
(*                                                                               *)
(* Input (JSON file IOEnv.IN): sequence of parents [n, kids, want]:              *)
(*   n     real tile edge;  kids  4 slots, each <<>> (absent) or n rows of n      *)
(*   <<r, g, b>>;  want  <<>> = every output pixel, else a sequence of <<row,      *)
(*   column>> (1-based) of the output pixels to evaluate.                         *)
EXTENDS TileMerge, Json, IOUtils

In == JsonDeserialize(IOEnv.IN)
Px(k, r, col) == IF k = <<>> THEN UPx("Colour")
                 ELSE LET v == k[r][col] IN LeafPx("Colour", <<v[1], v[2], v[3], 255>>)
\* the output pixel (r, col) of parent p by the display sentence
Out(p, r, col) ==
    LET j == (2 * (r - 1)) \div p.n
        i == (2 * (col - 1)) \div p.n
        k == p.kids[2 * j + i + 1]
        rr == ((2 * (r - 1)) % p.n) + 1
        cc == ((2 * (col - 1)) % p.n) + 1
    IN ReducePx("Colour", Px(k, rr, cc), Px(k, rr, cc + 1), Px(k, rr + 1, cc), Px(k, rr + 1, cc + 1))
Expected(p) == IF p.want = <<>> THEN [r \in 1..p.n |-> [col \in 1..p.n |-> Out(p, r, col)]]
               ELSE [q \in DOMAIN p.want |-> Out(p, p.want[q][1], p.want[q][2])]
Result == [q \in DOMAIN In |-> Expected(In[q])]
\* the interval is one integer when the four stored values sum to a multiple of 4, else two neighbours
IntervalsTight(res) == \A q \in DOMAIN res : \A s \in DOMAIN res[q] :
                          IF In[q].want = <<>> THEN TRUE
                          ELSE \A ch \in 1..4 : res[q][s][ch][2] - res[q][s][ch][1] \in {0, 1}
ASSUME LET res == Result IN IntervalsTight(res) /\ JsonSerialize(IOEnv.OUT, res)
=============================================================================
