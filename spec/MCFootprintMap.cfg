SPECIFICATION Spec
CONSTANTS
 MaxL = 6
 MaxAmp = 2
 MaxOff = 3
 Levels = 7
INVARIANT TypeOK
INVARIANT Monotone
INVARIANT SameMapNoFalseNegative
INVARIANT EndsSuffice
INVARIANT CoreLosesTilesIffDistorted
INVARIANT NoFrameLosesTilesIffOffset
INVARIANT Emit
CHECK_DEADLOCK FALSE
