SPECIFICATION Spec
CONSTANTS
 Lengths <- MCLengths
 MinSamples = 1
INVARIANT CoarseSpansImage
INVARIANT CoversEveryArrayPixel
INVARIANT EndsIncluded
INVARIANT ReachesImageEdge
INVARIANT Spacing
INVARIANT WalkOK
CHECK_DEADLOCK FALSE
