SPECIFICATION Spec
CONSTANTS
 Configs <- MCConfigs
 Index = "index.wtml"
 MaxFaults = 2
 Atomic = TRUE
INVARIANT TypeOK
INVARIANT QIndexImpliesAll
INVARIANT QPublishedImpliesAll
INVARIANT QRefreshSafe
INVARIANT QUnfinishedIsApproved
PROPERTY IndexLast
PROPERTY RenameAfterAll
PROPERTY PublishedStable
PROPERTY Completes
PROPERTY ReRunCompletes
CHECK_DEADLOCK FALSE
