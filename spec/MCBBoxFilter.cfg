SPECIFICATION Spec
CONSTANTS
 G = 4
 LatLonBases <- MCLatLonBases
INVARIANT NoFalseNegative
INVARIANT NoFalsePositive
INVARIANT SortOK
INVARIANT UnwrapOK
INVARIANT HullIsMinArc
INVARIANT BranchFree
INVARIANT UnionNoFalseNegative
CHECK_DEADLOCK FALSE
