SPECIFICATION SpecPar
CONSTANTS
 TS = 2
 Cases <- MCCases
 Caps <- MCCaps
 SlackSet <- MCSlackNone
 NWorkers = 2
 UseLock = TRUE
 ReleaseUnlinks = TRUE
INVARIANT Mutex
INVARIANT NoContributionLost
INVARIANT ParallelEqualsSerial
INVARIANT ParPopulatedExact
INVARIANT NoLocksRemain
INVARIANT LocksOnlyWhileRunning
INVARIANT ParVisits
INVARIANT AtMostOnce
INVARIANT ReturnedImpliesAll
PROPERTY Returns
CHECK_DEADLOCK FALSE
