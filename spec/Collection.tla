----------------------------- MODULE Collection -----------------------------
(* Which HDU and which WCS solution every input file of a FITS collection      *)
(* contributes.  Transcribed from toasty/collection.py:                        *)
(*   SimpleFitsCollection._scan_hdus  (ScanOne, GuessHdu = the for/break loop) *)
(*   SimpleFitsCollection._load / descriptions() / images()  (the two          *)
(*       generators NextDescription / NextImage over the same _scan_hdus)      *)
(*   CollectionLoader.create_from_args  (ParseOption: one token = scalar,      *)
(*       several = per-file list)                                              *)
(*   load / toasty.tile_fits pass the selection through unchanged.             *)
(*                                                                             *)
(*   CollectionLoader.load_paths hands the path list on as given (LoadPaths):  *)
(*       a path named twice is two inputs.                                     *)
(*                                                                             *)
(* FileSeq is the set of PHYSICAL files on disk (a sequence, so that a file has*)
(* a number); a collection is a SEQUENCE of input paths = numbers of physical  *)
(* files, so the same file may be named at several list positions (e.g. to take*)
(* two extensions of one multi-extension file).  Everything the property says  *)
(* is stated over list POSITIONS, not over distinct files.                     *)
(* A file is a sequence of HDUs, numbered from 0 as in FITS/astropy; an HDU is *)
(* [kind, keys]: kind "empty" (no data, e.g. the primary of a multi-extension  *)
(* file), "img" (2-D image), "tab" (binary table); keys = the WCS solutions in *)
(* its header (" " = primary WCS, "A".."Z" alternates).                        *)
(* A selection is [form, v]: form "none" (v = <<>>), "one" (v = <<x>>: the same*)
(* for every file) or "each" (v[i] belongs to the file at list position i).    *)
(*                                                                             *)
(* The module also owns the ENCODING used to observe the real code: the HDU j  *)
(* of physical file p gets a shape, a constant pixel value and a reference     *)
(* pixel that identify (p, j); every WCS key gets its own CRVAL.               *)
EXTENDS Integers, Sequences, FiniteSets, TLC

CONSTANTS FileSeq,      \* the physical files under test (a sequence, so that a file has a number)
          MaxFiles,     \* collections have 1..MaxFiles input paths
          HduForms,     \* forms of hdu_index explored, subset of {"none", "one", "each"}
          KeyForms,     \* forms of wcs_key explored
          HduVals       \* the integers a user may write as an HDU index (negative ones count from the end, as in Python)

\* ------------------------------------------------------------------ files
\* axes = the WCS axes of the HDU in FITS order (NAXIS1 first); xlen = length of every non-celestial axis
E == [kind |-> "empty", keys |-> {}, axes |-> <<>>, xlen |-> 0]
T == [kind |-> "tab", keys |-> {}, axes |-> <<>>, xlen |-> 0]
I(ks) == [kind |-> "img", keys |-> ks, axes |-> <<"RA", "DEC">>, xlen |-> 0]
\* an image HDU with more than two axes: a spectral and/or a Stokes axis before, between or after the celestial ones
Cube(ks, ax, n) == [kind |-> "img", keys |-> ks, axes |-> ax, xlen |-> n]
AxisNames == {"RA", "DEC", "FREQ", "STOKES"}
Pos(ax, name) == CHOOSE n \in DOMAIN ax : ax[n] = name
AxisOrders == {ax \in UNION {[1..m -> AxisNames] : m \in 3..4} :
                 /\ \A n1, n2 \in DOMAIN ax : n1 # n2 => ax[n1] # ax[n2]
                 /\ \E n \in DOMAIN ax : ax[n] = "RA"
                 /\ \E n \in DOMAIN ax : ax[n] = "DEC"
                 /\ Pos(ax, "RA") < Pos(ax, "DEC")}
CubeTypes == {Cube({" ", "A"}, ax, n) : ax \in AxisOrders, n \in {1, 2}}
IsCelestial(name) == name \in {"RA", "DEC"}
KeySeq == <<" ", "A", "B">>
KeyNo(k) == CHOOSE n \in DOMAIN KeySeq : KeySeq[n] = k
AllKeys == {KeySeq[n] : n \in DOMAIN KeySeq}
ImgTypes == {I({" "}), I({" ", "A"}), I({" ", "A", "B"}), I({" ", "B"})}
\* every layout with at most n HDUs: a table cannot be the primary HDU
AllLayouts(n) == UNION {{f \in [1..m -> ImgTypes \cup {E, T}] : f[1] # T} : m \in 1..n}

Hdu(f, j) == f[j + 1]
HduNos(f) == 0..(Len(f) - 1)
\* "holding image data": the code's test is `has a shape with more than one axis and is not a binary table`
IsImage(h) == h.kind = "img"
ImageHdus(f) == {j \in HduNos(f) : IsImage(Hdu(f, j))}
HasImage(f) == ImageHdus(f) # {}
\* the property's words: the FIRST HDU holding image data
FirstImage(f) == CHOOSE j \in ImageHdus(f) : \A k \in ImageHdus(f) : j <= k

\* the code's words: `for hdu_index, hdu in enumerate(hdul): if <image>: break` - falls off the end with the last HDU
RECURSIVE Scan(_, _)
Scan(f, j) == IF IsImage(Hdu(f, j)) \/ j = Len(f) - 1 THEN j ELSE Scan(f, j + 1)
GuessHdu(f) == Scan(f, 0)

\* ------------------------------------------------------------------ selections
None == [form |-> "none", v |-> <<>>]
One(x) == [form |-> "one", v |-> <<x>>]
Each(s) == [form |-> "each", v |-> s]

\* what the user asked for, for the file at list position i (the property's three sentences)
\* an index as Python / astropy read it: -1 is the last HDU of THIS file
Resolve(x, f) == IF x < 0 THEN Len(f) + x ELSE x
SelectHdu(spec, i, f) == CASE spec.form = "one" -> Resolve(spec.v[1], f)
                           [] spec.form = "each" -> Resolve(spec.v[i], f)
                           [] spec.form = "none" -> FirstImage(f)
SelectKey(spec, i) == CASE spec.form = "one" -> spec.v[1]
                        [] spec.form = "each" -> spec.v[i]
                        [] spec.form = "none" -> " "

\* one pass of the loop body of _scan_hdus for path_index = i (1-based here), in the code's branch order
ScanOne(paths, hspec, kspec, i) ==
    LET f == FileSeq[paths[i]]
        h == IF hspec.form = "one" THEN hspec.v[1]           \* isinstance(self._hdu_index, int)
             ELSE IF hspec.form # "none" THEN hspec.v[i]     \* elif self._hdu_index is not None: the file's entry
             ELSE GuessHdu(f)
        k == IF kspec.form = "one" THEN kspec.v[1]           \* isinstance(self._wcs_key, str)
             ELSE IF kspec.form # "none" THEN kspec.v[i]
             ELSE " "
    IN [path |-> i, file |-> paths[i], hdu |-> Resolve(h, f), key |-> k]   \* path = list position, file = what is opened there; hdul[h]

\* CollectionLoader.load_paths: `paths = list(str(p) for p in paths)` - the list as given, repeats included; a path is
\* the NAME of one file, never a pattern: whatever characters the file system allows in it
LoadPaths(paths) == paths
\* the kind of name physical file p has on disk (the harness owns the concrete spelling of each class)
NameClasses == <<"plain", "brackets", "wildcards", "dashdots", "nonascii", "spaces">>
NameClass(p) == NameClasses[((p - 1) % Len(NameClasses)) + 1]

\* command line: `--hdu-index 1,2,0` / `--wcs-key A,B`; the option value is a comma-separated token list.
\* int(value) succeeds / len(keys) == 1  <=>  exactly one token  => scalar; otherwise a per-file list.
Tokens(spec) == spec.v                                      \* how a user writes the selection on the command line
ParseOption(present, toks) == IF ~present THEN None ELSE IF Len(toks) = 1 THEN One(toks[1]) ELSE Each(toks)

\* ------------------------------------------------------------------ encoding of (physical file, HDU, key) in the data
Shape(p, j) == <<2 + p, 5 + j>>            \* (rows, columns)
Val(p, j) == 10 * p + j                    \* constant pixel value
\* pixel scale of physical file p in units of 1/1000 degree: files 1, 3, 5 ... share the finest grid, the others are 2x / 4x
\* coarser, so that a collection may or may not lie on one common pixel grid
Scale(p) == IF p % 2 = 1 THEN 1 ELSE IF p % 4 = 2 THEN 2 ELSE 4
\* where the image starts on the common tangent plane, in finest pixels from the reference point, along the pixel-x direction
SkyX(p, j) == 200 * p + 40 * j
Crpix(p, j) == <<SkyX(p, j) \div Scale(p), 7 + j>>
Crval(k) == <<10 * KeyNo(k), 10 * KeyNo(k) - 5>>
Cdelt(p) == <<-Scale(p), Scale(p)>>        \* in 1/1000 degree: an ordinary bottom-up FITS image (positive parity)
AxisLen(p, j, h, n) == IF h.axes[n] = "RA" THEN Shape(p, j)[2] ELSE IF h.axes[n] = "DEC" THEN Shape(p, j)[1] ELSE h.xlen
\* the pixel at index idx (one index per FITS axis) holds Val + 1000 * (sum of the indices on the non-celestial axes):
\* the celestial plane at index 0 of every other axis is the constant Val(p, j)
PlaneStep == 1000
Content(p, j, h) ==
    [kind |-> h.kind, shape |-> IF IsImage(h) THEN Shape(p, j) ELSE <<>>, val |-> Val(p, j),
     axes |-> [n \in DOMAIN h.axes |-> [name |-> h.axes[n], len |-> AxisLen(p, j, h, n)]], planestep |-> PlaneStep,
     wcs |-> {[key |-> k, crval |-> Crval(k), crpix |-> Crpix(p, j), cdelt |-> Cdelt(p)] : k \in h.keys}]
\* what the harness has to write: physical file p as a list of HDU contents
FileTable == [p \in DOMAIN FileSeq |-> [jj \in DOMAIN FileSeq[p] |-> Content(p, jj - 1, FileSeq[p][jj])]]
\* what must be observed for an item that stands for (list position, physical file p, HDU j, key k): the 2-D celestial
\* image (for a cube: plane 0 of every non-celestial axis) with the celestial part of the selected WCS
Observed(o) == [path |-> o.path, file |-> o.file, hdu |-> o.hdu, key |-> o.key, shape |-> Shape(o.file, o.hdu),
                nhdu |-> Len(FileSeq[o.file]), val |-> Val(o.file, o.hdu), crval |-> Crval(o.key), crpix |-> Crpix(o.file, o.hdu), cdelt |-> Cdelt(o.file)]

\* ---- what the code does with an array of more than two axes (numpy order = FITS order reversed)
Rev(sq) == [n \in DOMAIN sq |-> sq[Len(sq) + 1 - n]]
\* _load: keep_axes = celestial?, in numpy order; data[tuple(slice(None) if k else 0 ...)]; descriptions: the kept lengths
KeepShape(ax, lens) == LET names == Rev(ax)
                           l == Rev(lens)
                       IN SelectSeq([n \in DOMAIN names |-> <<names[n], l[n]>>], LAMBDA e : IsCelestial(e[1]))
SliceShape(ax, lens) == LET k == KeepShape(ax, lens) IN [n \in DOMAIN k |-> k[n][2]]
\* the alternative "peel the leading numpy axes until two are left" keeps the first two FITS axes, whatever they are
PeelShape(ax, lens) == <<lens[2], lens[1]>>
\* theorem: slicing by keep_axes gives (rows, columns) of the celestial image for EVERY axis order; peeling only when the
\* celestial axes come first in FITS order (lengths chosen pairwise different)
CubeSlicing == \A ax \in AxisOrders :
    LET lens == [n \in DOMAIN ax |-> IF ax[n] = "RA" THEN 7 ELSE IF ax[n] = "DEC" THEN 5 ELSE IF ax[n] = "FREQ" THEN 2 ELSE 3] IN
    /\ SliceShape(ax, lens) = <<5, 7>>
    /\ (PeelShape(ax, lens) = <<5, 7>>) <=> (ax[1] = "RA" /\ ax[2] = "DEC")

\* ---- what a tiling of the collection has to show (end-to-end observation)
\* the item's footprint on the common tangent plane in finest pixels: doubled centre (integers), width, height
Sky(o) == LET sh == Shape(o.file, o.hdu)
              sc == Scale(o.file)
              c == Crpix(o.file, o.hdu)
          IN [cx2 |-> (sh[2] + 1 - 2 * c[1]) * sc, cy2 |-> (sh[1] + 1 - 2 * c[2]) * sc, w |-> sh[2] * sc, h |-> sh[1] * sc]
MinOf(S) == CHOOSE x \in S : \A y \in S : x <= y
\* the mosaic of a collection is sampled at the finest input scale; the inputs lie on ONE pixel grid (no reprojection
\* needed) exactly when they all have the same scale and use the same reference point (same key)
MosaicUnit(items) == MinOf({Scale(items[n].file) : n \in DOMAIN items})
Aligned(items) == /\ \A n, m \in DOMAIN items : Scale(items[n].file) = Scale(items[m].file)
                  /\ \A n, m \in DOMAIN items : items[n].key = items[m].key
SameSky(items) == \A n, m \in DOMAIN items : items[n].key = items[m].key

\* ---- a SECOND encoding, for the tiling routes whose worker processes get hold of the pixel data themselves (parallel > 1):
\* every image HDU of every file has ONE shape, so that a route that opens another HDU than the selected one cannot be
\* told by a shape mismatch or an exception - the constant pixel value Val(p, j) alone says which HDU of which file landed
\* in the tiles; the reference points of the WCS keys lie on one meridian KeyRise/1000 degrees apart, so that a collection
\* whose per-file keys differ still gives a mosaic of a few hundred pixels, in which an input placed with another key than
\* the selected one is KeyRise finest pixels away from where it belongs (or shows nothing at all)
FlatShape == <<6, 8>>
KeyRise == 300
FlatCrpix(p, j) == <<SkyX(p, j) \div Scale(p), 4>>
NearCrval(k) == <<30000, KeyRise * (KeyNo(k) - 1)>>          \* in 1/1000 degree (crvaldiv)
FlatAxisLen(h, n) == IF h.axes[n] = "RA" THEN FlatShape[2] ELSE IF h.axes[n] = "DEC" THEN FlatShape[1] ELSE h.xlen
FlatContent(p, j, h) ==
    [kind |-> h.kind, shape |-> IF IsImage(h) THEN FlatShape ELSE <<>>, val |-> Val(p, j),
     axes |-> [n \in DOMAIN h.axes |-> [name |-> h.axes[n], len |-> FlatAxisLen(h, n)]], planestep |-> PlaneStep,
     wcs |-> {[key |-> k, crval |-> NearCrval(k), crvaldiv |-> 1000, crpix |-> FlatCrpix(p, j), cdelt |-> Cdelt(p)] : k \in h.keys}]
FlatFileTable == [p \in DOMAIN FileSeq |-> [jj \in DOMAIN FileSeq[p] |-> FlatContent(p, jj - 1, FileSeq[p][jj])]]
FlatObserved(o) == [path |-> o.path, file |-> o.file, hdu |-> o.hdu, key |-> o.key, shape |-> FlatShape,
                    nhdu |-> Len(FileSeq[o.file]), val |-> Val(o.file, o.hdu), crval |-> NearCrval(o.key), crvaldiv |-> 1000,
                    crpix |-> FlatCrpix(o.file, o.hdu), cdelt |-> Cdelt(o.file)]
\* footprint in 1/1000 degree from the reference point of key " ": doubled centre, width, height
FlatSky(o) == LET sc == Scale(o.file)
                  c == FlatCrpix(o.file, o.hdu)
              IN [cx2 |-> (FlatShape[2] + 1 - 2 * c[1]) * sc,
                  cy2 |-> (FlatShape[1] + 1 - 2 * c[2]) * sc + 2 * KeyRise * (KeyNo(o.key) - 1),
                  w |-> FlatShape[2] * sc, h |-> FlatShape[1] * sc]
\* every per-file entry of the selection is in scope for EVERY file of the collection (a route that applies the entry of
\* one list position to the file at another one then fails on nothing)
CrossValid(files, hspec, kspec) ==
    \A i \in DOMAIN files : \A m \in DOMAIN files :
        LET j == IF hspec.form = "none" THEN FirstImage(files[m])
                 ELSE Resolve(IF hspec.form = "one" THEN hspec.v[1] ELSE hspec.v[i], files[m]) IN
        /\ j \in ImageHdus(files[m])
        /\ (IF kspec.form = "none" THEN " " ELSE IF kspec.form = "one" THEN kspec.v[1] ELSE kspec.v[i]) \in Hdu(files[m], j).keys

\* ------------------------------------------------------------------ the space of cases
Files(l) == [i \in DOMAIN l |-> FileSeq[l[i]]]
MaxHdus == 4
\* a selection is in scope when it designates, in every file, an existing image HDU that carries the chosen key
InScope(files, hspec, kspec) ==
    /\ hspec.form = "each" => Len(hspec.v) = Len(files)
    /\ kspec.form = "each" => Len(kspec.v) = Len(files)
    /\ \A i \in DOMAIN files :
         /\ HasImage(files[i])
         /\ LET j == SelectHdu(hspec, i, files[i]) IN
              /\ j \in HduNos(files[i]) /\ IsImage(Hdu(files[i], j))
              /\ SelectKey(kspec, i) \in Hdu(files[i], j).keys
\* the in-scope selections, generated (not filtered) so that TLC's initial-state computation stays small
Forms(forms, ones, eachs) ==
    (IF "none" \in forms THEN {None} ELSE {}) \cup
    (IF "one" \in forms THEN {One(x) : x \in ones} ELSE {}) \cup
    (IF "each" \in forms THEN {Each(s) : s \in eachs} ELSE {})
HduSpecs(files) ==
    LET n == Len(files) IN
    Forms(HduForms, {x \in HduVals : \A i \in 1..n : Resolve(x, files[i]) \in ImageHdus(files[i])},
          {s \in [1..n -> HduVals] : \A i \in 1..n : Resolve(s[i], files[i]) \in ImageHdus(files[i])})
KeysAt(files, hspec, i) == Hdu(files[i], SelectHdu(hspec, i, files[i])).keys
KeySpecs(files, hspec) ==
    LET n == Len(files) IN
    {k \in Forms(KeyForms, {x \in AllKeys : \A i \in 1..n : x \in KeysAt(files, hspec, i)},
                 {s \in [1..n -> AllKeys] : \A i \in 1..n : s[i] \in KeysAt(files, hspec, i)}) :
        k.form = "none" => \A i \in 1..n : " " \in KeysAt(files, hspec, i)}

VARIABLES lay, hs, ks,      \* frozen: the input paths as the user lists them (numbers of physical files, repeats allowed), hdu_index, wcs_key
          dout, iout        \* what descriptions() / images() have yielded so far (their path_index = Len)
vars == <<lay, hs, ks, dout, iout>>
N == Len(lay)
CollPaths == LoadPaths(lay)       \* self._paths of the collection built for the user's list

Init == /\ lay \in UNION {[1..n -> DOMAIN FileSeq] : n \in 1..MaxFiles}
        /\ \A i \in DOMAIN lay : HasImage(FileSeq[lay[i]])
        /\ hs \in HduSpecs(Files(lay))
        /\ ks \in KeySpecs(Files(lay), hs)
        /\ dout = <<>> /\ iout = <<>>

\* the two generators are independent objects over the same _scan_hdus; a consumer may interleave them at will
NextDescription == /\ Len(dout) < Len(CollPaths)
                   /\ dout' = Append(dout, ScanOne(CollPaths, hs, ks, Len(dout) + 1))
                   /\ UNCHANGED <<lay, hs, ks, iout>>
NextImage == /\ Len(iout) < Len(CollPaths)
             /\ iout' = Append(iout, ScanOne(CollPaths, hs, ks, Len(iout) + 1))
             /\ UNCHANGED <<lay, hs, ks, dout>>
Next == NextDescription \/ NextImage
Spec == Init /\ [][Next]_vars
Done == Len(dout) = Len(CollPaths) /\ Len(iout) = Len(CollPaths)

\* ------------------------------------------------------------------ the property, sentence by sentence
Yielded == {dout[n] : n \in DOMAIN dout} \cup {iout[n] : n \in DOMAIN iout}
\* "a single HDU index or WCS key applies to every file"
ScalarAppliesToAll == /\ hs.form = "one" => \A o \in Yielded : o.hdu = Resolve(hs.v[1], FileSeq[o.file])
                      /\ ks.form = "one" => \A o \in Yielded : o.key = ks.v[1]
\* "a list supplies the index or key for the file at the same list position" - o.path is a list POSITION of the user's
\* input; a file named at two positions has two entries and contributes twice
ListIsPositional == /\ hs.form = "each" => \A o \in Yielded : o.hdu = Resolve(hs.v[o.path], FileSeq[o.file])
                    /\ ks.form = "each" => \A o \in Yielded : o.key = ks.v[o.path]
\* "no selection means the first HDU holding image data" (and the primary WCS)
NoneIsFirstImage == /\ hs.form = "none" => \A o \in Yielded : LET f == Files(lay)[o.path] IN
                                              /\ IsImage(Hdu(f, o.hdu))
                                              /\ \A j \in 0..(o.hdu - 1) : ~IsImage(Hdu(f, j))
                    /\ ks.form = "none" => \A o \in Yielded : o.key = " "
\* every item is exactly what the user selected (the three sentences in one)
ExactSelection == \A o \in Yielded : /\ o.hdu = SelectHdu(hs, o.path, Files(lay)[o.path])
                                     /\ o.key = SelectKey(ks, o.path)
\* "descriptions and full images ... refer to the same HDUs, in input order, with identical shapes and WCS"
InInputOrder == /\ \A n \in DOMAIN dout : dout[n].path = n /\ dout[n].file = lay[n]
                /\ \A n \in DOMAIN iout : iout[n].path = n /\ iout[n].file = lay[n]
\* "each input file contributes": one item per position of the user's list, repeated paths included
EveryInputContributes == Done => /\ Len(dout) = N /\ Len(iout) = N
                                 /\ \A n \in 1..N : dout[n].file = lay[n] /\ iout[n].file = lay[n]
\* a file named at several positions is read at each of them with that position's own entry
RepeatsAreIndependent == Done =>
    \A n, m \in 1..N : (n # m /\ lay[n] = lay[m]) =>
        /\ dout[n].hdu = SelectHdu(hs, n, FileSeq[lay[n]]) /\ dout[m].hdu = SelectHdu(hs, m, FileSeq[lay[m]])
        /\ dout[n].key = SelectKey(ks, n) /\ dout[m].key = SelectKey(ks, m)
DescriptionsMatchImages == \A n \in DOMAIN dout \cap DOMAIN iout : Observed(dout[n]) = Observed(iout[n])
\* the command-line spelling of a selection selects the same thing
Fresh == dout = <<>> /\ iout = <<>>      \* theorems about the frozen part are evaluated once per case
CaseInScope == Fresh => InScope(Files(lay), hs, ks)
CliFaithful == Fresh =>
               LET h2 == ParseOption(hs.form # "none", Tokens(hs))
                   k2 == ParseOption(ks.form # "none", Tokens(ks))
               IN \A i \in 1..N : ScanOne(CollPaths, h2, k2, i) = ScanOne(CollPaths, hs, ks, i)
\* changing the entry of one file changes that file's contribution and nothing else
ListIsLocal == (Fresh /\ hs.form = "each") =>
    \A i \in 1..N : \A x \in ImageHdus(Files(lay)[i]) :
        LET h2 == Each([hs.v EXCEPT ![i] = x]) IN
        \A m \in 1..N : ScanOne(CollPaths, h2, ks, m).hdu = IF m = i THEN x ELSE Resolve(hs.v[m], Files(lay)[m])

KeyListIsLocal == (Fresh /\ ks.form = "each") =>
    \A i \in 1..N : \A x \in KeysAt(Files(lay), hs, i) :
        LET k2 == Each([ks.v EXCEPT ![i] = x]) IN
        \A m \in 1..N : ScanOne(CollPaths, hs, k2, m).key = IF m = i THEN x ELSE ks.v[m]

\* ------------------------------------------------------------------ theorems that do not depend on a behaviour
\* the generated case space is exactly the set of in-scope selections (checked for collections of up to n files)
AllSpecs(forms, n, vals) == Forms(forms, vals, [1..n -> vals])
CaseSpaceComplete(n) ==
    \A l \in UNION {[1..m -> DOMAIN FileSeq] : m \in 1..n} :
        LET files == Files(l)
            m == Len(l) IN
        (\A i \in 1..m : HasImage(files[i])) =>
            {<<h, k>> : h \in AllSpecs(HduForms, m, HduVals), k \in AllSpecs(KeyForms, m, AllKeys)} \cap
                {c \in AllSpecs(HduForms, m, HduVals) \X AllSpecs(KeyForms, m, AllKeys) : InScope(files, c[1], c[2])}
            = UNION {{<<h, k>> : k \in KeySpecs(files, h)} : h \in HduSpecs(files)}
\* the loop finds the first image HDU whenever there is one; otherwise it ends on the last HDU
GuessIsFirstImage(n) == \A f \in AllLayouts(n) : /\ HasImage(f) => GuessHdu(f) = FirstImage(f)
                                                 /\ ~HasImage(f) => GuessHdu(f) = Len(f) - 1
\* the observation encoding tells every (physical file, HDU) apart, by shape alone, by value alone and by WCS alone ...
Slots == (DOMAIN FileSeq) \X (0..(MaxHdus - 1))
EncodingInjective ==
    /\ Cardinality({Shape(c[1], c[2]) : c \in Slots}) = Cardinality(Slots)
    /\ Cardinality({Val(c[1], c[2]) : c \in Slots}) = Cardinality(Slots)
    /\ Cardinality({<<Crpix(c[1], c[2])[1], Scale(c[1])>> : c \in Slots}) = Cardinality(Slots)
    /\ \A c \in Slots : Crpix(c[1], c[2])[1] * Scale(c[1]) = SkyX(c[1], c[2])
\* ... and on the common tangent plane two different (file, HDU) are at least 8 finest pixels apart along x
\* (pixel x of an image sits at (x - CRPIX1) * scale)
Left(c) == (1 - Crpix(c[1], c[2])[1]) * Scale(c[1])
Right(c) == (Shape(c[1], c[2])[2] - Crpix(c[1], c[2])[1]) * Scale(c[1])
EncodingDisjoint ==
    \A c1, c2 \in Slots : c1 # c2 => (Right(c1) + 8 <= Left(c2) \/ Right(c2) + 8 <= Left(c1))
EncodingKeys == \A k1, k2 \in AllKeys : k1 # k2 => Crval(k1)[1] # Crval(k2)[1] /\ Crval(k1)[2] # Crval(k2)[2]
\* the second encoding: the value tells every (file, HDU) apart (EncodingInjective); two different (file, HDU) are at least
\* 8 finest pixels apart along x whatever their keys; two keys of one HDU are at least 8 finest pixels apart along y
FlatLeft(c) == (1 - FlatCrpix(c[1], c[2])[1]) * Scale(c[1])
FlatRight(c) == (FlatShape[2] - FlatCrpix(c[1], c[2])[1]) * Scale(c[1])
FlatEncoding ==
    /\ \A c1, c2 \in Slots : c1 # c2 => (FlatRight(c1) + 8 <= FlatLeft(c2) \/ FlatRight(c2) + 8 <= FlatLeft(c1))
    /\ \A p \in DOMAIN FileSeq : KeyRise >= FlatShape[1] * Scale(p) + 8
    /\ \A c \in Slots : FlatCrpix(c[1], c[2])[1] * Scale(c[1]) = SkyX(c[1], c[2])
    /\ \A k1, k2 \in AllKeys : k1 # k2 => NearCrval(k1) # NearCrval(k2)
=============================================================================
