SPECIFICATION Spec
CONSTANTS
 Configs <- MCConfigs
 Index = "index.wtml"
 MaxFaults = 1
 Atomic = FALSE
 TopOf <- MCTopOf
 Traversal = "listdir"
INVARIANT TypeOK
INVARIANT NestedClosed
INVARIANT QIndexImpliesAll
INVARIANT QPublishedImpliesAll
INVARIANT QRefreshSafe
INVARIANT QUnfinishedIsApproved
PROPERTY IndexLast
PROPERTY RenameAfterAll
PROPERTY PublishedStable
PROPERTY Completes
PROPERTY ReRunCompletes
CHECK_DEADLOCK FALSE
