---------------------------- MODULE MCAstrometry ----------------------------
(* Wrapper of Astrometry.tla for checks/g09.py (`tlc MCAstrometryBuiltin` runs it on its own, built-in space).  *)
(* The case space is a product of dimension sets; checks/g09.py overrides the sets (inputs only) in a       *)
(* generated module that EXTENDS this one.  Emit prints, for every state, the case, the WCS that reaches     *)
(* set_position_from_wcs, the expected refusal / ImageSet / Place, the description read back, the plane      *)
(* positions of the key pixels and the truth values of the statements the code does not keep.                *)
EXTENDS Astrometry, Json

\* ---- reference pixels, symbolically (FITS coordinates of a ww x hh array)
RefPoint(tag, ww, hh) ==
    CASE tag = "centre"  -> <<Q(ww + 1, 2), Q(hh + 1, 2)>>             \* the middle of the image
      [] tag = "first"   -> <<QI(1), QI(1)>>                           \* the centre of the first pixel
      [] tag = "corner"  -> <<QHalf, QHalf>>                           \* an outer corner of the image (on the edge)
      [] tag = "edge"    -> <<Q(2 * ww + 1, 2), Q(hh + 1, 2)>>         \* the middle of the right edge
      [] tag = "frac"    -> <<Q(2 * ww + 1, 4), Q(3 * hh + 1, 4)>>     \* inside, not on a pixel centre
      [] tag = "outside" -> <<QI(0 - 10), QI(hh + 20)>>                \* outside the image

WcsCases(kinds, pres, mats, sizes, tags, crvals, units, ctypes) ==
    {Case(kd, sz[1], sz[2], pr, mt, un, RefPoint(tg, sz[1], sz[2]), cv, ct, 0, 0, "", FALSE) :
        kd \in kinds, pr \in pres, mt \in mats, sz \in sizes, tg \in tags, cv \in crvals, un \in units, ct \in ctypes}
\* AVM in Scale + Rotation form: Spatial.Rotation has the direction dv = <<x, y>>, |Spatial.Scale| = un * sqrt(x^2 + y^2);
\* CDELT = (-|s|, +|s|) and CROTA give CD = un * << -x, -y, -y, x >>
ScaleFormMatrix(dv) == <<0 - dv[1], 0 - dv[2], 0 - dv[2], dv[1]>>
\* dims = <<rw, rh, tw, th>>: reference dimension of the AVM and size of the image it is applied to
AvmScaleCases(dirs, dims, tags, crvals, units, ctypes, hasdims) ==
    {Case("avm", dm[3], dm[4], "study", ScaleFormMatrix(dv), un, RefPoint(tg, dm[1], dm[2]), cv, ct, dm[1], dm[2], "scale", hd) :
        dv \in dirs, dm \in dims, tg \in tags, cv \in crvals, un \in units, ct \in ctypes, hd \in hasdims}
AvmCdCases(mats, dims, tags, crvals, units) ==
    {Case("avm", dm[3], dm[4], "study", mt, un, RefPoint(tg, dm[1], dm[2]), cv, "tan", dm[1], dm[2], "cd", TRUE) :
        mt \in mats, dm \in dims, tg \in tags, cv \in crvals, un \in units}
DefaultCases(sizes) == {Case("default", sz[1], sz[2], "study", <<0, 0, 0, 0>>, QI(1), <<QZero, QZero>>, <<QZero, QZero>>, "tan", 0, 0, "", FALSE) : sz \in sizes}

\* exact-form matrix of the direction <<b, d>> = (CD1_2, CD2_2) and parity sg: << sg * d, b, -sg * b, d >>
ExactMatrix(bd, sg) == <<sg * bd[2], bd[1], 0 - sg * bd[1], bd[2]>>

\* ---- emitter (always-true invariant)
KeySeq(k) == <<<<QHalf, QHalf>>, <<Q(2 * k.w + 1, 2), QHalf>>, <<QHalf, Q(2 * k.h + 1, 2)>>, <<Q(2 * k.w + 1, 2), Q(2 * k.h + 1, 2)>>,
               out.app.cr, <<Q(k.w + 1, 2), Q(k.h + 1, 2)>>>>
Pts(k) == LET ks == KeySeq(k) IN [i \in 1..6 |-> [px |-> ks[i], plane |-> PlaneOf(out.app, ks[i])]]
\* the four corners of the AVM's reference image: what the AVM says, and where the corner of the target image showing the same
\* point of the picture is
AvmPts(k) == LET f == <<<<0, 0>>, <<1, 0>>, <<0, 1>>, <<1, 1>>>> IN
             [i \in 1..4 |-> [ref |-> RefCorner(k, f[i][1], f[i][2]), target |-> TargetCorner(k, f[i][1], f[i][2]),
                              plane |-> PlaneOf(AvmOwn(k), RefCorner(k, f[i][1], f[i][2]))]]
Ideals == [AcceptedOnlyIfExpressible |-> AcceptedOnlyIfExpressible,
           RotationIndependentOfStorageParity |-> RotationIndependentOfStorageParity,
           AvmCornersKeepSky |-> AvmCornersKeepSky,
           AvmParityRespected |-> AvmParityRespected,
           ViewContainsImage |-> ViewContainsImage,
           PlaceFollowsImageRotation |-> PlaceFollowsImageRotation,
           DefaultViewShowsImage |-> DefaultViewShowsImage,
           ToastUntouched |-> ToastUntouched,
           ServedFileMatches |-> ServedFileMatches]
Report == [case |-> cs,
           given |-> GivenW(cs),
           app |-> out.app,
           err |-> out.err, ok |-> out.ok,
           pre |-> out.pre, set |-> out.set, place |-> out.place,
           hasdec |-> out.hasdec, dec |-> out.dec,
           exact |-> out.exact, tiled |-> out.tiled, described |-> out.described,
           pts |-> IF cs.kind = "default" THEN <<>> ELSE Pts(cs),
           avm |-> IF cs.kind = "avm" /\ cs.hasdim THEN [k |-> AvmK(cs, cs.w), true |-> AvmTrue(cs, cs.w, cs.h), pts |-> AvmPts(cs)]
                   ELSE [k |-> QZero, true |-> GivenW(cs), pts |-> <<>>],
           ideal |-> Ideals]
Emit == PrintT(<<"A", ToJson(Report)>>)
=============================================================================
