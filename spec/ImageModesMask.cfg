SPECIFICATION AgreeSpec
CONSTANTS
 H = 1
 W = 1
 V = 1
 Classes = {}
 ImgForms = {}
 SrcTiles = {}
 PriorTiles = {}
 ExploreFrom = {}
 FancySel = {}
 Formats = {}
 FileTiles = {}
 PairModes = {}
 PairSrc = {}
CHECK_DEADLOCK FALSE
