--------------------------- MODULE ImageModesMask ---------------------------
(* G05 - ImageModes.tla and Mask.tla (C15) describe the same modes: the       *)
(* mode set, the mode classes (what "undefined" means), the maskable-buffer  *)
(* mode of every mode, and the lossless (mode, format) pairs are equal.      *)
(* TLC evaluates the ASSUMEs; AgreeSpec is Mask's all-machines-frozen state   *)
(* (Mask declares variables, so TLC wants a behaviour specification).        *)
EXTENDS Mask
IM == INSTANCE ImageModes

ASSUME IM!Modes = Modes
ASSUME \A m \in Modes : IM!ClassOf(m) = ClassOf(m)
ASSUME \A m \in Modes : IM!BufMode(m) = BufMode(m)
\* Mask's CanHold is the "exact" part of ImageModes' save / load table
ASSUME \A f \in {"png", "npy", "fits"} : IM!LosslessHolds(f) = CanHold[f]
\* the modes in which a fully undefined tile can be told from data are the ones whose class has an "undefined" that is
\* not also a data value: exactly the classes for which ImageModes!UndefPx is not "value = 0" and not constantly FALSE
ASSUME Maskable = {m \in Modes : IM!ClassOf(IM!BufMode(m)) \in {"RGBA", "Float", "F16x3"} /\ m # "RGB"}
AgreeSpec == BufFrozen /\ FileFrozen /\ [][UNCHANGED vars]_vars
=============================================================================
