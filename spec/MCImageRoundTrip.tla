-------------------------- MODULE MCImageRoundTrip --------------------------
(* Wrapper of ImageRoundTrip.tla for checks/g05.py: the standard families    *)
(* and the emitter (always-true invariant): for every configuration the      *)
(* expected outcome of save, the file, and the two loaded images.            *)
EXTENDS ImageRoundTrip, ImageFamilies, Json

MCRequests == {"default", "png", "jpg", "npy", "fits", "tiff"}
MCSaveModes == {"none", "RGB", "RGBA"}
MCDefaults == {"png", "jpg", "npy", "fits"}
MCRoutes == {"direct", "buffer"}
MCDimsQuick == {<<1, 1>>, <<3, 2>>}
MCDimsThorough == {<<1, 1>>, <<3, 2>>, <<2, 3>>, <<5, 1>>}
MCImagesQuick == ImageFamily(Modes, MCDimsQuick, {0, 3})
MCImagesThorough == ImageFamily(Modes, MCDimsThorough, {0, 1, 2, 3, 5})

Record == [src |-> X0, freq |-> freq, smode |-> smode, dflt |-> dflt, route |-> route,
           sm |-> SM, f |-> F, pair |-> P,
           s1 |-> T1.s, x1 |-> T1.x, s2 |-> T2.s, x2 |-> T2.x,
           mask0 |-> MaskOf(Saved(X0)), mask1 |-> IF T1.x.ok THEN MaskOf(T1.x) ELSE {},
           ideal |-> [OnlyDocumentedPairsWrite |-> OnlyDocumentedPairsWrite, DefaultFormatHoldsMode |-> DefaultFormatHoldsMode,
                      BufferRouteKeepsMode |-> BufferRouteKeepsMode, IdempotentOnEveryRoute |-> IdempotentOnEveryRoute, ModeSurvivesEveryWrite |-> ModeSurvivesEveryWrite]]
Emit == PrintT(<<"RT", ToJson(Record)>>)
=============================================================================
