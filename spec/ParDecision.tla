---------------------------- MODULE ParDecision ----------------------------
(* toasty.par_util.resolve_parallelism: how many worker processes a stage uses.  *)
(* Every parallel stage (walk, leaf visit, transform, multi-image tiling) calls  *)
(* it first, so it decides which of the protocols of WalkPar.tla / WorkQueue.tla *)
(* (parallel > 1) or their serial twins (parallel = 1) runs.                      *)
(*                                                                               *)
(* Inputs:  req    the caller's request: NoReq (None) or an integer              *)
(*          fork   whether the platform's multiprocessing start method is "fork" *)
(*          slurm  the SLURM_NPROCS environment variable: Unset, Junk (not an    *)
(*                 integer), or an integer >= 0                                  *)
(* (TLC cannot compare strings with integers, so the special cases are integer   *)
(* sentinels.)                                                                   *)
(*          cpus   os.cpu_count()                                                *)
EXTENDS Integers, TLC
CONSTANTS Requests, Slurms, CpuCounts
NoReq == 99999
Unset == -1
Junk == -2

\* transcription of the code's branches
FromEnv(slurm, cpus) == IF slurm \notin {Unset, Junk} THEN slurm ELSE cpus
   \* (SLURM_NPROCS = "0" is a non-empty string: it is parsed, kept as 0 and clamped to 1 at the end - the CPU count is not consulted)
Wanted(req, fork, slurm, cpus) ==
    IF req = NoReq THEN (IF fork THEN FromEnv(slurm, cpus) ELSE 1) ELSE req
Resolve(req, fork, slurm, cpus) ==
    LET w == Wanted(req, fork, slurm, cpus)
        w2 == IF w > 1 /\ ~fork THEN 1 ELSE w
    IN IF w2 > 1 THEN w2 ELSE 1

VARIABLES req, fork, slurm, cpus
vars == <<req, fork, slurm, cpus>>
Init == req \in Requests /\ fork \in BOOLEAN /\ slurm \in Slurms /\ cpus \in CpuCounts
\* walk the configuration space: change one input at a time
Next == \/ req' \in Requests /\ UNCHANGED <<fork, slurm, cpus>>
        \/ fork' \in BOOLEAN /\ UNCHANGED <<req, slurm, cpus>>
        \/ slurm' \in Slurms /\ UNCHANGED <<req, fork, cpus>>
        \/ cpus' \in CpuCounts /\ UNCHANGED <<req, fork, slurm>>
Spec == Init /\ [][Next]_vars

R == Resolve(req, fork, slurm, cpus)
\* the documented contract
Positive == R >= 1
NoForkMeansSerial == ~fork => R = 1
ExplicitHonoured == (req # NoReq /\ fork /\ req >= 1) => R = req
NonPositiveIsSerial == (req # NoReq /\ req <= 1) => R = 1
DefaultUsesAllocation == (req = NoReq /\ fork /\ slurm \notin {Unset, Junk} /\ slurm >= 1) => R = slurm
DefaultUsesCpus == (req = NoReq /\ fork /\ slurm \in {Unset, Junk}) => R = (IF cpus > 1 THEN cpus ELSE 1)
\* changing only the platform from fork to non-fork can only reduce the answer to 1 (action property)
LosingForkSerialises == [][(fork /\ ~fork') => Resolve(req', fork', slurm', cpus') = 1]_vars
=============================================================================
