---------------------- MODULE MCAstrometryHistoryBuiltin ----------------------
(* A built-in command alphabet for AstrometryHistory.tla, so that `tlc MCAstrometryHistoryBuiltin` checks the    *)
(* theorems over every command sequence up to MaxCmds without checks/g09.py (which generates its own alphabet). *)
EXTENDS MCAstrometryHistory
Cv1 == <<A!Q(418, 5), A!Q(0 - 27, 5)>>
Cv0 == <<A!QZero, A!QZero>>
U == A!Q(1, 4000)
KTiled == A!Case("wcs", 300, 200, "study", <<0 - 4, 3, 0 - 3, 0 - 4>>, U, <<A!Q(301, 2), A!Q(201, 2)>>, Cv1, "tan", 0, 0, "", FALSE)
KTiled0 == A!Case("wcs", 300, 200, "study", <<0 - 4, 3, 0 - 3, 0 - 4>>, U, <<A!QI(10), A!Q(0 - 3, 2)>>, Cv0, "tan", 0, 0, "", FALSE)
KUntiledBu == A!Case("wcs", 200, 100, "study", <<0 - 4, 0 - 3, 0 - 3, 4>>, U, <<A!QI(1), A!QI(1)>>, Cv1, "tan", 0, 0, "", FALSE)
KAvm == A!Case("avm", 300, 200, "study", <<0 - 4, 0 - 3, 0 - 3, 4>>, U, <<A!Q(601, 2), A!Q(401, 2)>>, Cv1, "tan", 600, 400, "scale", TRUE)
KDefault == A!Case("default", 300, 200, "study", <<0, 0, 0, 0>>, A!QI(1), <<A!QZero, A!QZero>>, Cv0, "tan", 0, 0, "", FALSE)
KNonSquare == A!Case("wcs", 300, 200, "study", <<0 - 10, 0, 0, 0 - 12>>, U, <<A!Q(301, 2), A!Q(201, 2)>>, Cv1, "tan", 0, 0, "", FALSE)
Meta1 == [title |-> "T", desc |-> "D", credit |-> "", url |-> "http"]
BuiltinCmdSeq == <<CmdPrepare(300, 200), CmdPrepare(200, 100), CmdAstro(KTiled, NoMeta), CmdAstro(KTiled0, NoMeta), CmdAstro(KUntiledBu, NoMeta),
                   CmdAstro(KAvm, Meta1), CmdAstro(KAvm, NoMeta), CmdAstro(KDefault, NoMeta), CmdAstro(KNonSquare, NoMeta), CmdToast(1),
                   CmdSetName("n"), CmdThumb(300, 200), CmdThumb(1, 7), CmdWrite(FALSE), CmdWrite(TRUE), CmdRestore>>
BuiltinCommands == {BuiltinCmdSeq[i] : i \in DOMAIN BuiltinCmdSeq}
=============================================================================
