--------------------------- MODULE WorkQueueTrace ---------------------------
(* Trace validation (code -> spec) for the producer/worker stages: a run of the REAL stage with real processes      *)
(* records only the callback starts and completions (ticket order, worker identity).  All other WorkQueue actions  *)
(* are silent; TLC searches for an interleaving that explains the recording and ends with the stage returned.      *)
(* `Explained` reachable  <=>  invariant NotExplained violated.                                                    *)
EXTENDS WorkQueue
CONSTANTS Trace          \* sequence of <<kind, item, worker>>, kind \in {"s", "e"}
VARIABLE l
tvars == <<vars, l>>
TInit == Init /\ l = 1
IsEv(kind, w) == l <= Len(Trace) /\ Trace[l][1] = kind /\ Trace[l][3] = w /\ Trace[l][2] = witem[w]
Silent == /\ \/ PPut \/ PPutFull \/ PClose \/ PJoinThread \/ PJoinThreadPoll \/ PSetEv \/ PJoinW \/ Flush
             \/ \E w \in Workers : WSample(w) \/ WAcquire(w) \/ WLockTimeout(w) \/ WRecv(w) \/ WPollTimeout(w) \/ WCheckDone(w)
          /\ UNCHANGED l
Logged == \E w \in Workers : \/ (IsEv("s", w) /\ WCbStart(w) /\ l' = l + 1)
                             \/ (IsEv("e", w) /\ WCbEnd(w) /\ l' = l + 1)
TNext == Silent \/ Logged
TSpec == TInit /\ [][TNext]_tvars
Explained == l = Len(Trace) + 1 /\ outcome = "returned"
NotExplained == ~Explained
=============================================================================
