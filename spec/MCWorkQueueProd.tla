---- MODULE MCWorkQueueProd ----
EXTENDS WorkQueueProd
NoFaults == {{}}
AnyOneFault == {{}} \cup {{i} : i \in Items}
AnyK == 0..(NItems + 1)
NoK == {0}
Admissible == {"propagate", "wind-down-raise"}
AsCoded == {"propagate"}
Swallow == {"wind-down-return"}
====
