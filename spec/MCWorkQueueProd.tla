---- MODULE MCWorkQueueProd ----
EXTENDS WorkQueueProd
NoFaults == {{}}
AnyOneFault == {{}} \cup {{i} : i \in Items}
AnyK == 0..(NItems + 1)
NoK == {0}
====
