---------------------------- MODULE WcsSampling ----------------------------
(* G11 (DESIGN.md section 7) - the VALUE sampling of toasty.samplers.WcsSampler:                          *)
(*   WcsSampler.__init__   self._image = np.float32(data)                                                  *)
(*   WcsSampler.sampler()  -> vec2pix(lon, lat):  SkyCoord(lon, lat, rad)  ->                              *)
(*        wcs.world_to_array_index  (astropy: world_to_pixel, 0-based; floor(p + 0.5); NaN -> INT_MIN;     *)
(*        reversed to (row, column) order)  ->  bad = any index < 0 or >= shape  ->  idx[bad] = 0  ->      *)
(*        samp = image[idx]  ->  samp[bad] = NaN.                                                          *)
(* Callers: FitsTiler._tile_toast (WcsSampler(image.asarray(), image.wcs), rows in the WCS's own pixel     *)
(* order, no parity flip), Builder.toast_base(sampler, depth, tile_filter=...).                            *)
(* (WcsSampler.filter() / _image_bounds are ImageBounds.tla / C07; the plate-carree samplers are           *)
(* PlateCarree.tla / C11.  The parity flip is Parity.tla's FlipWcs, INSTANCEd below.)                      *)
(*                                                                                                         *)
(* EXACT ARITHMETIC.  An image sits on an integer sky lattice: the CD matrix is an integer matrix in       *)
(* lattice units per pixel (any of the 8 lattice orientations, anisotropic scale, skew), CRPIX is integer  *)
(* or half-integer (r = 2 * CRPIX), and                                                                    *)
(*   proj = "CAR": CRVAL = (lon0, 0), so the intermediate world coordinates ARE (lon - lon0, lat) with     *)
(*                 the native longitude taken in [-pi, pi) (per = lattice units per turn);                 *)
(*   proj = "TAN": the lattice lives on the tangent plane; the harness lifts plane points to the sky by    *)
(*                 the closed-form gnomonic deprojection about a CRVAL of its choice.                      *)
(* A probe point is given in SUB-units (G per lattice unit): (x, y, t) = plane (TAN) / sky (CAR) position   *)
(* and t whole turns added to the longitude.  With n1 = 2|D|G * p1 (p the 1-based FITS pixel coordinate,   *)
(* D = det CD) every containment question is a comparison of integers.  Points on a pixel edge or on the   *)
(* native seam are ambiguous (either side is admissible; they are emitted as Edge and not compared).       *)
(*                                                                                                         *)
(* Layers: (1) the contract as a containment RELATION (InCell, the ideal source: the pixel whose open cell *)
(* holds the sky point, whatever the turn); (2) closed forms (IdxFromN); (3) CodeSample, the transcription *)
(* of vec2pix.  State machine: one root image and the equivalent descriptions of the same picture reached  *)
(* by FlipParity (toasty's flip: rows reversed + Parity!FlipWcs), Rotate (the array stored a quarter turn  *)
(* round), RecentreWithin (reference pixel moved, CRVAL following).  As-built deviations are the named     *)
(* action RecentreAcrossSeam (a CAR image reaching beyond +-180 deg of native longitude: those pixels are  *)
(* never returned - wcslib itself gives them no sky position) and the named operators Float32 (values      *)
(* are rounded to float32), Outcome (ScalarRequestRaises, LatitudeOutOfRangeRaises), BoundaryHalfOpen;     *)
(* each has its ideal statement below, refuted by TLC.                                                     *)
(*                                                                                                         *)
(* (TLC evaluates operators afresh for every invariant: the per-point geometry is tabulated once per       *)
(* invariant - Tab - and the theorems are stated over the table.)                                          *)
EXTENDS Integers, Sequences, FiniteSets, TLC

CONSTANTS Roots,      \* set of root images [id, proj, nx, ny, cd, r, lon0, per, base, ch, deltas]
          G,          \* sub-units per lattice unit (probe resolution)
          Margin,     \* ring around the footprint that the main request covers, lattice units
          Far         \* TAN: displacement of the "far outside" requests, lattice units

VARIABLES root,       \* the root image (never changes)
          c,          \* the current description of the same picture
          moves,      \* recentrings made (0 or 1)
          act         \* name of the last action
vars == <<root, c, moves, act>>

Par == INSTANCE Parity WITH Kinds <- {}, Widths <- {}, Heights <- {}, Headers <- {}, RefX <- {}, RefY <- {}, RecY <- {},
                            Peers <- {}, Edits <- {}, MaxHist <- 0, orig <- 0, cur <- 0, base <- 0, peer <- 0, buf <- 0,
                            hist <- 0, trace <- 0

Undef  == -1              \* NaN in the result
Edge   == -2              \* not compared: the point is on a pixel edge / on the native seam
NaNIdx == -1000000000     \* np.iinfo(int).min: what astropy's _toindex makes of a NaN pixel coordinate

Abs(a) == IF a < 0 THEN 0 - a ELSE a
SetMin(S) == CHOOSE m \in S : \A e \in S : m <= e
SetMax(S) == CHOOSE m \in S : \A e \in S : m >= e

\* ------------------------------------------------------------------ the linear WCS, in integers
Det(cd)   == cd[1] * cd[4] - cd[2] * cd[3]
IsCar(im) == im.proj = "CAR"
\* per-image constants: e = |D| G (one pixel = 2e in the n-scale), sg = sign D, turn = sub-units per 2*pi
Geo(im) == LET d == Det(im.cd) IN
           [e |-> Abs(d) * G, sg |-> IF d > 0 THEN 1 ELSE -1, dg |-> d * G, car |-> IsCar(im), turn |-> im.per * G, half |-> (im.per * G) \div 2,
            x0 |-> G * im.lon0]
\* native longitude of sky longitude k (sub-units): (k - lon0) wrapped into [-pi, pi)  (wcslib sphs2x)
NativeX(g, k) == ((k - g.x0 + g.half) % g.turn) - g.half
\* n1 = 2*e*p1, n2 = 2*e*p2 for the plane point (X, Y):  p - r/2 = CD^-1 (X, Y) / G
N1(im, g, X, Y) == g.sg * (2 * (im.cd[4] * X - im.cd[2] * Y) + im.r[1] * g.dg)
N2(im, g, X, Y) == g.sg * (2 * (im.cd[1] * Y - im.cd[3] * X) + im.r[2] * g.dg)

\* (1) the contract: array element [j][i] (0-based; FITS pixel (i+1, j+1)) owns the open cell |p - (i+1, j+1)| < 1/2
InCell(g, i, j, n1, n2) == /\ (2 * i + 1) * g.e < n1 /\ n1 < (2 * i + 3) * g.e
                           /\ (2 * j + 1) * g.e < n2 /\ n2 < (2 * j + 3) * g.e
\* (2) closed form = (3) astropy's rounding: index = floor((p - 1) + 1/2)
IdxFromN(g, n) == (n - g.e) \div (2 * g.e)
OnLine(g, n) == (n - g.e) % (2 * g.e) = 0
InImage(im, i, j) == 0 <= i /\ i < im.nx /\ 0 <= j /\ j < im.ny

\* (3) vec2pix as written, from the rounded indices.  valid = FALSE: the WCS has no pixel for the point (TAN: behind
\* the tangent plane; a NaN input)
CodeSample(im, row, col, valid) ==
    LET i0  == IF valid THEN row ELSE NaNIdx          \* idx[0]: the row
        i1  == IF valid THEN col ELSE NaNIdx          \* idx[1]: the column
        bad == i0 < 0 \/ i0 >= im.ny \/ i1 < 0 \/ i1 >= im.nx
        j0  == IF bad THEN 0 ELSE i0                  \* i_idx[bad] = 0
        j1  == IF bad THEN 0 ELSE i1
    IN [bad |-> bad, j0 |-> j0, j1 |-> j1, src |-> IF bad THEN Undef ELSE im.pix[j0 + 1][j1 + 1]]

\* everything about one probe point (x, y, t)
TurnsTried == (0 - 2)..2
Info(im, g, x, y, t) ==
    LET X   == IF g.car THEN NativeX(g, x + t * g.turn) ELSE x
        n1  == N1(im, g, X, y)
        n2  == N2(im, g, X, y)
        col == IdxFromN(g, n1)
        row == IdxFromN(g, n2)
        \* the pixels whose cell holds the sky point, whichever turn of the longitude the cell is written in
        \* (the footprint is less than a turn wide and its reference point less than a turn from the native origin)
        hits == IF g.car THEN {<<IdxFromN(g, N1(im, g, X + k * g.turn, y)), IdxFromN(g, N2(im, g, X + k * g.turn, y))>> : k \in {-1, 0, 1}}
                ELSE {<<col, row>>}
        ideal == {im.pix[h[2] + 1][h[1] + 1] : h \in {q \in hits : InImage(im, q[1], q[2])}}
    IN [amb |-> (g.car /\ X = 0 - g.half) \/ OnLine(g, n1) \/ OnLine(g, n2), n1 |-> n1, n2 |-> n2, col |-> col, row |-> row,
        src |-> CodeSample(im, row, col, TRUE).src, ideal |-> ideal]
IdealOf(inf) == IF inf.ideal = {} THEN Undef ELSE CHOOSE v \in inf.ideal : TRUE
\* what is emitted for a point
Expect(im, g, x, y, t) ==
    LET X   == IF g.car THEN NativeX(g, x + t * g.turn) ELSE x
        n1  == N1(im, g, X, y)
        n2  == N2(im, g, X, y)
    IN IF (g.car /\ X = 0 - g.half) \/ OnLine(g, n1) \/ OnLine(g, n2) THEN Edge
       ELSE CodeSample(im, IdxFromN(g, n2), IdxFromN(g, n1), TRUE).src

\* ------------------------------------------------------------------ values: everything is float32
RECURSIVE Pow2(_)
Pow2(n) == IF n = 0 THEN 1 ELSE 2 * Pow2(n - 1)
RECURSIVE BitLen(_)
BitLen(v) == IF v = 0 THEN 0 ELSE 1 + BitLen(v \div 2)
\* np.float32(v) for an integer 0 <= v < 2^30: 24 significant bits, round half to even
Float32(v) ==
    IF v < 16777216 THEN v
    ELSE LET q == Pow2(BitLen(v) - 24)  m == v \div q  rem == v % q
             up == 2 * rem > q \/ (2 * rem = q /\ m % 2 = 1)
         IN (IF up THEN m + 1 ELSE m) * q
\* the data array of the harness: element [j][i], channel k holds  base + pix * ch + k
DataValue(im, src, k) == im.base + src * im.ch + k
ValueTable(im) == TLCEval([s \in 1..(im.nx * im.ny) |-> TLCEval([k \in 1..im.ch |-> Float32(DataValue(im, s - 1, k - 1))])])

\* ------------------------------------------------------------------ the equivalent descriptions of one picture
Start(rt) == [proj |-> rt.proj, nx |-> rt.nx, ny |-> rt.ny, cd |-> rt.cd, r |-> rt.r, lon0 |-> rt.lon0, per |-> rt.per,
              base |-> rt.base, ch |-> rt.ch,
              pix |-> TLCEval([j \in 1..rt.ny |-> TLCEval([i \in 1..rt.nx |-> (j - 1) * rt.nx + (i - 1)])])]
\* Image.flip_parity: rows reversed, _flip_wcs_parity(wcs, height)
Flipped(im) == LET f == Par!FlipWcs(im.cd, im.r, im.ny) IN
               [im EXCEPT !.cd = f.cd, !.r = f.p, !.pix = Par!Reverse(im.pix)]
\* the same picture stored a quarter turn round: new[j'][i'] = old[ny-1-i'][j']
Rotated(im) == [im EXCEPT !.nx = im.ny, !.ny = im.nx,
                          !.cd = <<0 - im.cd[2], im.cd[1], 0 - im.cd[4], im.cd[3]>>,
                          !.r = <<2 * (im.ny + 1) - im.r[2], im.r[1]>>,
                          !.pix = TLCEval([jj \in 1..im.nx |-> TLCEval([ii \in 1..im.ny |-> im.pix[im.ny + 1 - ii][jj]])])]
\* reference pixel moved by d = <<d1, d2>> pixels, CRVAL moved to the sky position of the new reference pixel
ShiftY(im, d) == im.cd[3] * d[1] + im.cd[4] * d[2]
ShiftX(im, d) == im.cd[1] * d[1] + im.cd[2] * d[2]
Recentred(im, d) == [im EXCEPT !.r = <<im.r[1] + 2 * d[1], im.r[2] + 2 * d[2]>>, !.lon0 = (im.lon0 + ShiftX(im, d)) % im.per]
\* doubled lattice coordinates of the four footprint corners (pixel EDGES: 2p in {1, 2n+1})
CornersX2(im) == {im.cd[1] * (e1 - im.r[1]) + im.cd[2] * (e2 - im.r[2]) : e1 \in {1, 2 * im.nx + 1}, e2 \in {1, 2 * im.ny + 1}}
CornersY2(im) == {im.cd[3] * (e1 - im.r[1]) + im.cd[4] * (e2 - im.r[2]) : e1 \in {1, 2 * im.nx + 1}, e2 \in {1, 2 * im.ny + 1}}
\* the whole footprint lies within +-180 deg of native longitude (TAN: no seam)
InNative(im) == IsCar(im) => \A v \in CornersX2(im) : Abs(v) <= im.per
Moves(im) == {d \in {<<m, 0>> : m \in root.deltas} \cup {<<0, m>> : m \in root.deltas} : ShiftY(im, d) = 0 /\ ShiftX(im, d) # 0}

Init == root \in Roots /\ c = Start(root) /\ moves = 0 /\ act = "Init"
FlipParity == moves = 0 /\ c' = Flipped(c) /\ act' = "FlipParity" /\ UNCHANGED <<root, moves>>
Rotate == moves = 0 /\ c' = Rotated(c) /\ act' = "Rotate" /\ UNCHANGED <<root, moves>>
RecentreWithin == /\ moves = 0 /\ IsCar(c)
                  /\ \E d \in Moves(c) : InNative(Recentred(c, d)) /\ c' = Recentred(c, d)
                  /\ act' = "RecentreWithin" /\ moves' = 1 /\ UNCHANGED root
\* as built: the description is as legal as the others, but the pixels beyond the native seam are lost
RecentreAcrossSeam == /\ moves = 0 /\ IsCar(c)
                      /\ \E d \in Moves(c) : ~InNative(Recentred(c, d)) /\ c' = Recentred(c, d)
                      /\ act' = "RecentreAcrossSeam" /\ moves' = 1 /\ UNCHANGED root
Next == FlipParity \/ Rotate \/ RecentreWithin \/ RecentreAcrossSeam
Spec == Init /\ [][Next]_vars

\* ------------------------------------------------------------------ requests (grids of probe points, row-major)
\* a request is [name, xs, ys, t, tr]: element [r][q] is the point (xs[q], ys[r]) - or (xs[r], ys[q]) when tr - plus t turns
Thin(s, m, off) == TLCEval([k \in 1..((Len(s) - off + m) \div m) |-> s[off + (k - 1) * m]])
Shifted(s, d) == TLCEval([k \in 1..Len(s) |-> s[k] + d])
Window(rt) ==
    LET im   == Start(rt)
        offx == IF rt.proj = "CAR" THEN G * rt.lon0 ELSE 0
        ycap == IF rt.proj = "CAR" THEN (rt.per * G) \div 4 - 1 ELSE 1000000000        \* CAR: strictly between the poles
        ylo  == (G * SetMin(CornersY2(im))) \div 2 - Margin * G
        yhi  == (G * SetMax(CornersY2(im)) + 1) \div 2 + Margin * G
    IN [xlo |-> (G * SetMin(CornersX2(im))) \div 2 - Margin * G + offx,
        xhi |-> (G * SetMax(CornersX2(im)) + 1) \div 2 + Margin * G + offx,
        ylo |-> IF ylo < 0 - ycap THEN 0 - ycap ELSE ylo, yhi |-> IF yhi > ycap THEN ycap ELSE yhi]
Req(name, xs, ys, t, tr) == [name |-> name, xs |-> xs, ys |-> ys, t |-> t, tr |-> tr]
Requests(rt) ==
    LET w  == Window(rt)
        xs == TLCEval([q \in 1..(w.xhi - w.xlo + 1) |-> w.xlo + q - 1])
        ys == TLCEval([q \in 1..(w.yhi - w.ylo + 1) |-> w.ylo + q - 1])
        x2 == Thin(xs, 3, 1)  y2 == Thin(ys, 3, 1)  x3 == Thin(xs, 3, 2)  y3 == Thin(ys, 3, 3)
        mx == xs[(Len(xs) + 1) \div 2]  my == ys[(Len(ys) + 1) \div 2]
        common == << Req("main", xs, ys, 0, FALSE), Req("transposed", xs, ys, 0, TRUE),
                     Req("one-row", xs, <<my>>, 0, FALSE), Req("one-column", <<mx>>, ys, 0, FALSE), Req("one-point", <<mx>>, <<my>>, 0, FALSE),
                     Req("turn+1", x2, y2, 1, FALSE), Req("turn-1", x3, y3, -1, FALSE),
                     Req("turn+2", x3, y2, 2, TRUE), Req("turn-2", x2, y3, -2, FALSE) >>
    IN IF rt.proj = "CAR"
       THEN common \o << Req("opposite-meridian", Shifted(x2, (rt.per * G) \div 2), y3, 0, FALSE) >>
       ELSE common \o << Req("far+x", Shifted(x2, Far * G), y3, 0, FALSE), Req("far-x", Shifted(x3, 0 - Far * G), y2, 0, FALSE),
                         Req("far+y", x3, Shifted(y3, Far * G), 0, FALSE), Req("far-xy", Shifted(x2, 0 - 17 * Far * G), Shifted(y2, 0 - 17 * Far * G), -1, FALSE) >>
ReqRows(rq) == IF rq.tr THEN Len(rq.xs) ELSE Len(rq.ys)
ReqCols(rq) == IF rq.tr THEN Len(rq.ys) ELSE Len(rq.xs)
\* the answer: same shape, element by element, row-major (plus im.ch colour values per element: ValueTable)
Result(im, rq) == LET nr == ReqRows(rq)  nc == ReqCols(rq)  g == Geo(im) IN
                  TLCEval([r \in 1..nr |-> TLCEval([q \in 1..nc |->
                      IF rq.tr THEN Expect(im, g, rq.xs[r], rq.ys[q], rq.t) ELSE Expect(im, g, rq.xs[q], rq.ys[r], rq.t)])])
Range(s) == {s[k] : k \in DOMAIN s}
\* the distinct points of all requests except the re-arrangements of the main one (transposed / one row / column / point)
PointsOf(rs) == UNION {Range(rs[n].xs) \X Range(rs[n].ys) \X {rs[n].t} : n \in {1} \cup (6..Len(rs))}
\* Tab: every point's Info, tabulated once
Tab(im, pts) == LET g == Geo(im) IN TLCEval([p \in pts |-> Info(im, g, p[1], p[2], p[3])])
\* points that have no pixel at all: TAN, at angular distance 90.5 / 120 / 180 deg (code 1 / 2 / 3) from CRVAL
\* in direction ph; and NaN inputs (lon, lat, both)
OffPlane == <<<<1, 0, 0>>, <<1, 1, 1>>, <<1, 2, -1>>, <<2, 0, 0>>, <<2, 3, 2>>, <<2, 1, -2>>, <<3, 0, 0>>, <<3, 2, 1>>, <<3, 3, -1>>>>
NaNInputs == <<0, 1, 2>>
NoPixel(im) == CodeSample(im, 0, 0, FALSE).src
\* requests the code does not answer
BeyondPole(rt) == (rt.per * G) \div 4 + 1                   \* a CAR latitude outside [-pi/2, pi/2]
\* ScalarRequestRaises: for single-channel data image[idx] of a 0-d request is a numpy scalar and samp[bad] = nan fails (a colour
\* image yields the 1-d array of the point's channels and is answered); LatitudeOutOfRangeRaises: SkyCoord refuses the whole request
Outcome(im, rq) == IF rq.dims = 0 /\ im.ch = 1 THEN "TypeError"
                   ELSE IF rq.latbad THEN "ValueError"
                   ELSE "array"

\* ------------------------------------------------------------------ theorems (state invariants)
TypeOK == /\ c.proj \in {"CAR", "TAN"} /\ c.nx >= 1 /\ c.ny >= 1 /\ Det(c.cd) # 0 /\ Len(c.pix) = c.ny
          /\ \A j \in 1..c.ny : Len(c.pix[j]) = c.nx
          /\ {c.pix[j][i] : j \in 1..c.ny, i \in 1..c.nx} = 0..(c.nx * c.ny - 1)       \* a permutation of the root's pixels
          /\ (IsCar(c) => c.per % 4 = 0) /\ moves \in {0, 1}
\* (2) = (1): the closed form picks exactly the pixel whose open cell holds the point; at most one cell does
CellClosedFormT(im, tab) ==
    LET g == Geo(im) IN
    \A p \in DOMAIN tab : ~tab[p].amb =>
        /\ \A i \in 0..(im.nx - 1), j \in 0..(im.ny - 1) :
              InCell(g, i, j, tab[p].n1, tab[p].n2) <=> (tab[p].col = i /\ tab[p].row = j)
        /\ Cardinality(tab[p].ideal) <= 1
\* sentences 1 and 2: a point in pixel (i, j)'s cell gets data[j, i]; a point in no cell gets NaN - for every description
\* of the picture whose footprint stays within the native longitude range
CodeDecidesCellT(im, tab) == InNative(im) => \A p \in DOMAIN tab : ~tab[p].amb => tab[p].src = IdealOf(tab[p])
\* ... and in every description the answer is the right pixel or NaN: never a neighbour, never the opposite edge
SeamOnlyLosesT(im, tab) == \A p \in DOMAIN tab : ~tab[p].amb => tab[p].src \in {IdealOf(tab[p]), Undef}
NoWrapAroundT(im, tab) ==
    LET g == Geo(im) IN
    \A p \in DOMAIN tab : ~tab[p].amb =>
        ((tab[p].n1 < g.e \/ tab[p].n1 > (2 * im.nx + 1) * g.e \/ tab[p].n2 < g.e \/ tab[p].n2 > (2 * im.ny + 1) * g.e) => tab[p].src = Undef)
\* no index error: what is used as an index is inside the array, for valid and invalid pixel coordinates
IndexSafeT(im, tab) == \A p \in DOMAIN tab, valid \in BOOLEAN :
                          LET s == CodeSample(im, tab[p].row, tab[p].col, valid) IN InImage(im, s.j1, s.j0) /\ (~valid => s.src = Undef)
\* sentence 4 (and every rotation / reference pixel): all descriptions of the picture answer alike
SamePictureT(im, tab, im0, tab0) ==
    (InNative(im) /\ InNative(im0)) => \A p \in DOMAIN tab : (~tab[p].amb /\ ~tab0[p].amb) => tab[p].src = tab0[p].src

CellClosedForm == CellClosedFormT(c, Tab(c, PointsOf(Requests(root))))
CodeDecidesCell == CodeDecidesCellT(c, Tab(c, PointsOf(Requests(root))))
SeamOnlyLoses == SeamOnlyLosesT(c, Tab(c, PointsOf(Requests(root))))
NoWrapAround == NoWrapAroundT(c, Tab(c, PointsOf(Requests(root))))
IndexSafe == IndexSafeT(c, Tab(c, PointsOf(Requests(root))))
SamePicture == LET pts == PointsOf(Requests(root)) IN SamePictureT(c, Tab(c, pts), Start(root), Tab(Start(root), pts))
\* the same six, over one table (what the quick tier checks: one tabulation per state instead of six)
PointTheorems ==
    LET pts == PointsOf(Requests(root))  tab == Tab(c, pts) IN
    /\ CellClosedFormT(c, tab) /\ CodeDecidesCellT(c, tab) /\ SeamOnlyLosesT(c, tab) /\ NoWrapAroundT(c, tab) /\ IndexSafeT(c, tab)
    /\ SamePictureT(c, tab, Start(root), Tab(Start(root), pts))
NoPixelUndefined == NoPixel(c) = Undef
\* longitude is periodic (every second point of the main request, every number of turns)
Periodic == LET rs == Requests(root)  g == Geo(c) IN
            \A x \in Range(Thin(rs[1].xs, 2, 1)), y \in Range(Thin(rs[1].ys, 2, 2)) : \A t \in TurnsTried : Expect(c, g, x, y, t) = Expect(c, g, x, y, 0)
\* sentence 3: the answer has the request's shape; sentence 5: it is element-wise (a transposed request, one row,
\* one column, one point of the main request get the corresponding elements of the main answer)
Elementwise ==
    LET rs == Requests(root)  main == Result(c, rs[1])  tr == Result(c, rs[2])
        row == Result(c, rs[3])  col == Result(c, rs[4])  one == Result(c, rs[5])
        mq == (Len(rs[1].xs) + 1) \div 2  mr == (Len(rs[1].ys) + 1) \div 2 IN
    /\ \A n \in DOMAIN rs : LET res == Result(c, rs[n]) IN
          Len(res) = ReqRows(rs[n]) /\ \A r \in 1..Len(res) : Len(res[r]) = ReqCols(rs[n])
    /\ \A r \in 1..Len(main), q \in 1..Len(main[1]) : tr[q][r] = main[r][q]
    /\ row[1] = main[mr] /\ \A r \in 1..Len(main) : col[r][1] = main[r][mq]
    /\ one[1][1] = main[mr][mq]
\* float32: exact below 2^24, idempotent, within half a unit in the last place
Float32OK == \A s \in 0..(c.nx * c.ny - 1), k \in 0..(c.ch - 1) :
                LET v == DataValue(c, s, k)  f == Float32(v) IN
                /\ Float32(f) = f /\ (v < 16777216 => f = v)
                /\ 2 * Abs(f - v) * 16777216 <= Pow2(BitLen(v))
\* the image edge is half open: a shared edge belongs to the pixel above it, so the lower edge of the first row / column
\* belongs to the image and the upper edge of the last does not.  (A point with p = i + 1/2 exactly has n = (2i + 1) e;
\* not replayed: floating point decides such points.)
BoundaryHalfOpen ==
    LET g == Geo(c) IN
    /\ \A i \in 0..c.nx : IdxFromN(g, (2 * i + 1) * g.e) = i
    /\ InImage(c, IdxFromN(g, g.e), 0) /\ ~InImage(c, IdxFromN(g, (2 * c.nx + 1) * g.e), 0)
    /\ \A j \in 0..c.ny : IdxFromN(g, (2 * j + 1) * g.e) = j
    /\ InImage(c, 0, IdxFromN(g, g.e)) /\ ~InImage(c, 0, IdxFromN(g, (2 * c.ny + 1) * g.e))

\* ------------------------------------------------------------------ theorems (action properties)
SameAnswers(a, b) == LET rs == Requests(root) IN \A n \in {1, 6, Len(rs)} : Result(a, rs[n]) = Result(b, rs[n])
FlipKeepsPicture == [][act' = "FlipParity" => (Par!Sign(c'.cd) = 0 - Par!Sign(c.cd) /\ SameAnswers(c', c))]_vars
RotateKeepsPicture == [][act' = "Rotate" => (Par!Sign(c'.cd) = Par!Sign(c.cd) /\ SameAnswers(c', c))]_vars
RecentreWithinKeepsPicture ==
    [][act' = "RecentreWithin" => (InNative(c) =>
          LET pts == PointsOf(Requests(root)) IN SamePictureT(c', Tab(c', pts), c, Tab(c, pts)))]_vars

\* ------------------------------------------------------------------ ideal statements the code does not keep (TLC refutes each)
\* every legal description of the picture is sampled completely
IdealSeamless == LET tab == Tab(c, PointsOf(Requests(root))) IN \A p \in DOMAIN tab : ~tab[p].amb => tab[p].src = IdealOf(tab[p])
\* the caller's numbers come back unchanged
IdealExactValues == \A s \in 0..(c.nx * c.ny - 1), k \in 0..(c.ch - 1) : Float32(DataValue(c, s, k)) = DataValue(c, s, k)
\* any request shape, any latitude
IdealScalarAnswered == Outcome(c, [dims |-> 0, latbad |-> FALSE]) = "array"
IdealLatitudeTolerant == Outcome(c, [dims |-> 2, latbad |-> TRUE]) = "array"
\* the footprint is closed: a point exactly on the upper edge of the last column gets the last column
IdealClosedFootprint == LET g == Geo(c) IN InImage(c, IdxFromN(g, (2 * c.nx + 1) * g.e), 0)
Ideals == [IdealSeamless |-> IdealSeamless, IdealExactValues |-> IdealExactValues, IdealScalarAnswered |-> IdealScalarAnswered,
           IdealLatitudeTolerant |-> IdealLatitudeTolerant, IdealClosedFootprint |-> IdealClosedFootprint]

\* ------------------------------------------------------------------ what the harness gets for every state
Report ==
    LET rs == Requests(root) IN
    [root |-> root.id, act |-> act, moves |-> moves, inNative |-> InNative(c), sign |-> Par!Sign(c.cd),
     img |-> [proj |-> c.proj, nx |-> c.nx, ny |-> c.ny, cd |-> c.cd, r |-> c.r, lon0 |-> c.lon0, per |-> c.per,
              base |-> c.base, ch |-> c.ch, pix |-> c.pix],
     g |-> G, values |-> ValueTable(c),
     reqs |-> [n \in DOMAIN rs |-> [name |-> rs[n].name, xs |-> rs[n].xs, ys |-> rs[n].ys, t |-> rs[n].t, tr |-> rs[n].tr,
                                    res |-> Result(c, rs[n])]],
     off |-> IF IsCar(c) THEN <<>> ELSE [n \in DOMAIN OffPlane |-> [d |-> OffPlane[n][1], ph |-> OffPlane[n][2], t |-> OffPlane[n][3], res |-> NoPixel(c)]],
     nan |-> [n \in DOMAIN NaNInputs |-> [which |-> NaNInputs[n], res |-> NoPixel(c)]],
     scalar |-> [p |-> <<rs[5].xs[1], rs[5].ys[1]>>, outcome |-> Outcome(c, [dims |-> 0, latbad |-> FALSE]), res |-> Result(c, rs[5])[1][1]],
     latbad |-> IF IsCar(c) THEN [y |-> BeyondPole(root), outcome |-> Outcome(c, [dims |-> 2, latbad |-> TRUE])]
                ELSE [y |-> 0, outcome |-> "none"],
     ideals |-> Ideals]
=============================================================================
