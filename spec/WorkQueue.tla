----------------------------- MODULE WorkQueue -----------------------------
(* producer -> bounded queue -> workers -> shutdown handshake, as coded four    *)
(* times in toasty: Pyramid._visit_leaves_parallel/_mp_visit_worker,            *)
(* transform._transform_parallel/_transform_mp_worker,                         *)
(* multi_tan.MultiTanProcessor._tile_parallel/_mp_tile_worker,                 *)
(* multi_wcs.MultiWcsProcessor._tile_parallel/_mp_tile_worker.                 *)
(*                                                                             *)
(* producer: for each item: put (bounded; with Checked the put has a timeout   *)
(*   and a Full makes the producer look at the workers' exit status);          *)
(*   close; join_thread (returns when its buffer is flushed AND the feeder's    *)
(*   last write has completed); with JoinChecked the wait for the feeder is     *)
(*   polled and a dead worker makes the producer raise (par_util.              *)
(*   finish_checking_workers); set the flag;                                    *)
(*   join every worker in order; with Checked: raise if a worker died.         *)
(* feeder thread: Flush moves buffer -> pipe.  The OS pipe holds PipeCap        *)
(*   messages (unit-size items; 64 KiB in reality): the write that overflows it *)
(*   is visible to readers at once but BLOCKS the feeder (which holds the       *)
(*   queue's write lock) until receivers have drained the pipe down to PipeCap. *)
(*   PipeCap = 0: every item is larger than the pipe (images); PipeCap >= Cap:  *)
(*   the pipe never fills (tile positions).                                     *)
(* worker: FlagFirst (current tree): sample the flag, then get(timeout):       *)
(*   reader lock (or time out because another reader holds it), poll the pipe  *)
(*   (item, or Empty when the pipe is empty); on Empty leave iff the sample    *)
(*   taken BEFORE the get was set.  ~FlagFirst (before the repair): read the   *)
(*   flag after the Empty.                                                     *)
(* callback: WCbStart / WCbEnd; an item in Faults makes the callback raise:    *)
(*   the worker process dies with a non-zero exit status.                      *)
EXTENDS Naturals, Sequences, FiniteSets, TLC
CONSTANTS NItems, NW, Cap, FaultSets, Checked, FlagFirst, PipeCap, JoinChecked

Items == 1..NItems
Workers == 1..NW
Free == 0
NoItem == 0

VARIABLES faults, next, buf, pipe, sem, rlock, doneEv, ppc, pjoin, wpc, witem, wflag, started, processed, outcome
vars == <<faults, next, buf, pipe, sem, rlock, doneEv, ppc, pjoin, wpc, witem, wflag, started, processed, outcome>>

Dead == {w \in Workers : wpc[w] = "dead"}
Gone == {w \in Workers : wpc[w] \in {"exited", "dead"}}
Range(s) == {s[i] : i \in DOMAIN s}
NoDup(s) == \A i, j \in DOMAIN s : i # j => s[i] # s[j]

Init == /\ faults \in FaultSets
        /\ next = 1 /\ buf = <<>> /\ pipe = <<>> /\ sem = 0 /\ rlock = Free /\ doneEv = FALSE
        /\ ppc = "put" /\ pjoin = 1
        /\ wpc = [w \in Workers |-> "idle"] /\ witem = [w \in Workers |-> NoItem] /\ wflag = [w \in Workers |-> FALSE]
        /\ started = <<>> /\ processed = <<>> /\ outcome = "running"

\* ---- producer
PPut == /\ ppc = "put" /\ next <= NItems /\ sem < Cap
        /\ sem' = sem + 1 /\ buf' = Append(buf, next) /\ next' = next + 1
        /\ UNCHANGED <<faults, pipe, rlock, doneEv, ppc, pjoin, wpc, witem, wflag, started, processed, outcome>>
\* put(timeout) raised Full: check_workers
PPutFull == /\ Checked /\ ppc = "put" /\ next <= NItems /\ sem >= Cap
            /\ IF Dead # {} THEN ppc' = "failed" /\ outcome' = "raised" /\ doneEv' = TRUE
               ELSE UNCHANGED <<ppc, outcome, doneEv>>
            /\ UNCHANGED <<faults, next, buf, pipe, sem, rlock, pjoin, wpc, witem, wflag, started, processed>>
PClose == /\ ppc = "put" /\ next > NItems /\ ppc' = "jointhread"
          /\ UNCHANGED <<faults, next, buf, pipe, sem, rlock, doneEv, pjoin, wpc, witem, wflag, started, processed, outcome>>
FeederBlocked == Len(pipe) > PipeCap
PJoinThread == /\ ppc = "jointhread" /\ buf = <<>> /\ ~FeederBlocked /\ ppc' = "setev"
               /\ UNCHANGED <<faults, next, buf, pipe, sem, rlock, doneEv, pjoin, wpc, witem, wflag, started, processed, outcome>>
\* the wait for the feeder timed out: check_workers
PJoinThreadPoll == /\ JoinChecked /\ ppc = "jointhread" /\ (buf # <<>> \/ FeederBlocked)
                   /\ IF Dead # {} THEN ppc' = "failed" /\ outcome' = "raised" /\ doneEv' = TRUE
                      ELSE UNCHANGED <<ppc, outcome, doneEv>>
                   /\ UNCHANGED <<faults, next, buf, pipe, sem, rlock, pjoin, wpc, witem, wflag, started, processed>>
PSetEv == /\ ppc = "setev" /\ doneEv' = TRUE /\ ppc' = "joinw"
          /\ UNCHANGED <<faults, next, buf, pipe, sem, rlock, pjoin, wpc, witem, wflag, started, processed, outcome>>
PJoinW == /\ ppc = "joinw" /\ pjoin \in Gone
          /\ IF pjoin < NW THEN pjoin' = pjoin + 1 /\ UNCHANGED <<ppc, outcome>>
             ELSE /\ UNCHANGED pjoin
                  /\ IF Checked /\ Dead # {} THEN ppc' = "failed" /\ outcome' = "raised"
                     ELSE ppc' = "returned" /\ outcome' = "returned"
          /\ UNCHANGED <<faults, next, buf, pipe, sem, rlock, doneEv, wpc, witem, wflag, started, processed>>
Flush == /\ buf # <<>> /\ ~FeederBlocked /\ pipe' = Append(pipe, Head(buf)) /\ buf' = Tail(buf)
         /\ UNCHANGED <<faults, next, sem, rlock, doneEv, ppc, pjoin, wpc, witem, wflag, started, processed, outcome>>

\* ---- workers
WSample(w) == /\ FlagFirst /\ wpc[w] = "idle" /\ wflag' = [wflag EXCEPT ![w] = doneEv] /\ wpc' = [wpc EXCEPT ![w] = "ready"]
              /\ UNCHANGED <<faults, next, buf, pipe, sem, rlock, doneEv, ppc, pjoin, witem, started, processed, outcome>>
AtGet(w) == wpc[w] = (IF FlagFirst THEN "ready" ELSE "idle")
AfterEmpty(w) == IF FlagFirst THEN (IF wflag[w] THEN "exited" ELSE "idle") ELSE "empty"
WAcquire(w) == /\ AtGet(w) /\ rlock = Free /\ rlock' = w /\ wpc' = [wpc EXCEPT ![w] = "locked"]
               /\ UNCHANGED <<faults, next, buf, pipe, sem, doneEv, ppc, pjoin, witem, wflag, started, processed, outcome>>
WLockTimeout(w) == /\ AtGet(w) /\ rlock # Free /\ wpc' = [wpc EXCEPT ![w] = AfterEmpty(w)]
                   /\ UNCHANGED <<faults, next, buf, pipe, sem, rlock, doneEv, ppc, pjoin, witem, wflag, started, processed, outcome>>
WRecv(w) == /\ wpc[w] = "locked" /\ pipe # <<>>
            /\ witem' = [witem EXCEPT ![w] = Head(pipe)] /\ pipe' = Tail(pipe) /\ sem' = sem - 1
            /\ rlock' = Free /\ wpc' = [wpc EXCEPT ![w] = "cb"]
            /\ UNCHANGED <<faults, next, buf, doneEv, ppc, pjoin, wflag, started, processed, outcome>>
WPollTimeout(w) == /\ wpc[w] = "locked" /\ pipe = <<>> /\ rlock' = Free /\ wpc' = [wpc EXCEPT ![w] = AfterEmpty(w)]
                   /\ UNCHANGED <<faults, next, buf, pipe, sem, doneEv, ppc, pjoin, witem, wflag, started, processed, outcome>>
WCheckDone(w) == /\ ~FlagFirst /\ wpc[w] = "empty" /\ wpc' = [wpc EXCEPT ![w] = IF doneEv THEN "exited" ELSE "idle"]
                 /\ UNCHANGED <<faults, next, buf, pipe, sem, rlock, doneEv, ppc, pjoin, witem, wflag, started, processed, outcome>>
WCbStart(w) == /\ wpc[w] = "cb" /\ started' = Append(started, witem[w])
               /\ wpc' = [wpc EXCEPT ![w] = IF witem[w] \in faults THEN "dead" ELSE "running"]
               /\ UNCHANGED <<faults, next, buf, pipe, sem, rlock, doneEv, ppc, pjoin, witem, wflag, processed, outcome>>
WCbEnd(w) == /\ wpc[w] = "running" /\ processed' = Append(processed, witem[w])
             /\ wpc' = [wpc EXCEPT ![w] = "idle"] /\ witem' = [witem EXCEPT ![w] = NoItem]
             /\ UNCHANGED <<faults, next, buf, pipe, sem, rlock, doneEv, ppc, pjoin, wflag, started, outcome>>

WNext(w) == WSample(w) \/ WAcquire(w) \/ WLockTimeout(w) \/ WRecv(w) \/ WPollTimeout(w) \/ WCheckDone(w) \/ WCbStart(w) \/ WCbEnd(w)
Next == PPut \/ PPutFull \/ PClose \/ PJoinThread \/ PJoinThreadPoll \/ PSetEv \/ PJoinW \/ Flush \/ \E w \in Workers : WNext(w)
Fair == /\ WF_vars(PPut) /\ WF_vars(PPutFull) /\ WF_vars(PClose) /\ WF_vars(PJoinThread) /\ WF_vars(PJoinThreadPoll) /\ WF_vars(PSetEv)
        /\ WF_vars(PJoinW) /\ WF_vars(Flush)
        /\ \A w \in Workers : /\ WF_vars(WSample(w)) /\ WF_vars(WAcquire(w)) /\ WF_vars(WRecv(w)) /\ WF_vars(WPollTimeout(w))
                              /\ WF_vars(WCheckDone(w)) /\ WF_vars(WCbStart(w)) /\ WF_vars(WCbEnd(w))
Spec == Init /\ [][Next]_vars /\ Fair

\* ------------------------------------------------------------------ properties
\* C03: no item is handed to two workers ...
AtMostOnce == NoDup(started)
\* ... and a normal return means every item was fully processed, every worker has exited, nothing is in flight
ReturnedImpliesAll == outcome = "returned" =>
    /\ Range(processed) = Items /\ Len(processed) = NItems
    /\ \A w \in Workers : wpc[w] = "exited"
    /\ buf = <<>> /\ pipe = <<>> /\ sem = 0
\* the shutdown handshake: the flag goes up only after the producer's buffer is flushed
NoLossAtSet == (doneEv /\ outcome # "raised") => buf = <<>> /\ ~FeederBlocked /\ next > NItems
\* bounded queue: never more than Cap items in flight
Bounded == sem <= Cap /\ sem = Len(buf) + Len(pipe)
\* C19: a raising callback is never swallowed ...
NeverSwallowed == (Dead # {}) => outcome # "returned"
RaisedOnlyOnFault == outcome = "raised" => Dead # {}
\* ... and the stage always ends
Ends == <>(outcome # "running")
ReturnsWhenFaultFree == (faults = {}) => <>(outcome = "returned")
=============================================================================
