----------------------------- MODULE MCPublish -----------------------------
(* Hand-runnable model of spec/Publish.tla (the quick tier's file sets).      *)
(*   tlc -config MCPublish.cfg          MCPublish.tla   atomic store, 2 faults: everything holds   *)
(*   tlc -config MCPublish_inplace1.cfg MCPublish.tla   in-place store, 1 fault: everything holds   *)
(*   tlc -config MCPublish_inplace2.cfg MCPublish.tla   in-place store, 2 faults: QIndexImpliesAll *)
(*                                                      is REFUTED (the defect of LocalPipelineIo) *)
(*   tlc -config MCPublish_descend.cfg  MCPublish.tla   to-be publisher that descends into sub-     *)
(*                                                      folders, index.wtml last overall: all holds *)
(* checks/c18.py generates the same module for the file sets of each tier and *)
(* adds ACTION_CONSTRAINT EmitEdge to dump every transition of the graph.     *)
EXTENDS Publish, Json

MCConfigs == { [imgA |-> {"data.png", "index.wtml", "index_rel.wtml"}],
               [imgA |-> {"data.png", "thumb.jpg"}],
               [imgA |-> {"data.png", "index.wtml"}, imgB |-> {"index.wtml", "thumb.jpg"}],
               [imgA |-> {"data.png", "index.wtml", "tiles/0_0.png"}] }
ASSUME \A c \in MCConfigs : \A i \in DOMAIN c : c[i] # {}
\* the files that lie in a sub-folder of their image directory, with the name of that sub-folder
MCNested == [f \in {"tiles/0_0.png"} |-> "tiles"]
MCTopOf == [f \in UNION {UNION {c[i] : i \in DOMAIN c} : c \in MCConfigs} |-> IF f \in DOMAIN MCNested THEN MCNested[f] ELSE None]

\* a state as the harness reads it: the variables plus TLC's evaluation of the property's formulas in it
St == [files |-> files, store |-> store, loc |-> loc, pc |-> pc, queue |-> queue, cur |-> cur,
       listing |-> listing, order |-> order, k |-> k, faults |-> faults,
       iia |-> IndexImpliesAll, pia |-> PublishedImpliesAll, rs |-> RefreshSafe, whole |-> SkippedIsWhole,
       skips |-> {i \in Images : RefreshSkips(i)}]
\* the actions that relate the two states of a transition (Crash, Fail and Refuse relate the same pairs of states;
\* the harness realises them differently: BaseException / OSError at the put_item boundary or from its source /
\* OSError from the open() of the store-side file inside the real put_item / a real file-size limit or a failing
\* os.replace while the real put_item writes)
Acts == {a \in {"Start", "NextImage", "BeginPut", "EndPut", "Rename", "Finish", "Crash", "Fail", "Refuse", "StoreFail", "RefuseSubdir"} :
           CASE a = "Start" -> Start [] a = "NextImage" -> NextImage [] a = "BeginPut" -> BeginPut
             [] a = "EndPut" -> EndPut [] a = "Rename" -> Rename [] a = "Finish" -> Finish
             [] a = "Crash" -> Crash [] a = "Fail" -> Fail [] a = "Refuse" -> Refuse
             [] a = "StoreFail" -> StoreFail [] a = "RefuseSubdir" -> RefuseSubdir}
EmitEdge == PrintT(<<"E", ToJson([s |-> St, t |-> St', acts |-> Acts])>>)
=============================================================================
